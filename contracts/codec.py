"""Contracts on the PDU codec (C01; decode-side obligations reused by C02/C11/C12).

For every PDU / item class X and a symbolic well-formed value v (field values and field lengths
unbounded; list multiplicities: see SHAPES):
  O1 layout      X.encode(v) — the real _encoders table, executed from the AST — equals the PS3.8
                 layout of spec/ps38_layout.py field by field;
  O2 lengths     every length field equals the number of bytes that follow / of the field it names;
                 len(v) == header + item_length == number of encoded bytes;
  O3 ranges      no struct.error under well-formedness (packed values fit their width);
  O4 round trip  decode(encode(v)) restores every named field (the real _decoders, incl. the lazy generator
                 decoders of the length-prefixed sub-items, run interleaved with the setattr's as CPython does).
String helpers (set_uid, set_ae, decode_bytes, validate_uid, UID) are used BY CONTRACT here (summaries below);
they are verified on their own in C12."""
import z3

from pyvc.task import Task
from pyvc.interp import Interp, Config
from pyvc.values import SV, Obj, Env, Ev, ExcVal, PyRaise, Unsupported, BYTES
from pyvc.layout import LB, Raw, UInt, Blob, Fill, Slice, _zi, _conc
from pyvc.astr import AStr
from spec import ps38_layout as L

PDUM = "pynetdicom.pdu"
ITM = "pynetdicom.pdu_items"
UT = "pynetdicom.utils"


# ---------------------------------------------------------------------------------------------
# well-formed symbolic values
# ---------------------------------------------------------------------------------------------
def uid_pred(el):
    return z3.Or(el == 46, z3.And(el >= 48, el <= 57))          # '.' and '0'..'9'


def title_pred(el):
    return z3.And(el >= 32, el <= 126, el != 92)                 # printable ASCII without backslash


def sym_uid(I, name, lo=1, hi=64):
    e = I.input("bytes", name).e
    I.assume(z3.And(z3.Length(e) >= lo, z3.Length(e) <= hi))
    return AStr(LB([Blob(e, pred=uid_pred, trimmed=True, tag=name)]), is_uid=True)


def sym_title(I, name, lo=1, hi=16):
    e = I.input("bytes", name).e
    I.assume(z3.And(z3.Length(e) >= lo, z3.Length(e) <= hi))
    return AStr(LB([Blob(e, pred=title_pred, trimmed=True, tag=name)]))


def sym_bytes(I, name, lo=0, hi=None):
    e = I.input("bytes", name).e
    I.assume(z3.Length(e) >= lo)
    if hi is not None:
        I.assume(z3.Length(e) <= hi)
    return LB([Blob(e, tag=name)])


def sym_int(I, name, lo, hi):
    v = I.input("int", name)
    I.assume(z3.And(v.e >= lo, v.e <= hi))
    return v


# ---------------------------------------------------------------------------------------------
# callee contracts of the string helpers (verified separately: C12)
# ---------------------------------------------------------------------------------------------
def all_ascii(I, lb: LB):
    """True if every byte of lb is provably < 128 (segments carrying an ASCII element predicate or concrete)"""
    for s in lb.segs:
        if isinstance(s, Raw):
            if any(b > 127 for b in s.data):
                return False
        elif isinstance(s, Fill):
            if s.value > 127:
                return False
        elif isinstance(s, (Blob, Slice)):
            if s.pred not in (uid_pred, title_pred):
                return False
        else:
            return False
    return True


def c_decode_bytes(I, args, kw):
    lb = LB.of(I, args[0])
    if all_ascii(I, lb):
        return AStr(lb)
    # arbitrary bytes: either they decode (all < 128; the other codecs are dropped to ASCII by the code) or ValueError
    if I.choose(2, "decode_bytes") == 1:
        raise PyRaise(ExcVal("ValueError", ("Unable to decode",)))
    e = I.fresh("bytes", "decoded").e
    I.assume(z3.Length(e) <= _zi(lb.total()))
    return AStr(LB([Blob(e, pred=lambda el: z3.And(el >= 0, el <= 127))]))


def c_set_uid(I, args, kw):
    names = ["value", "name", "allow_empty", "allow_none", "validate"]
    a = dict(zip(names, args))
    a.update(kw)
    value = a["value"]
    allow_empty, allow_none, validate = a.get("allow_empty", True), a.get("allow_none", True), a.get("validate", True)
    if allow_none and value is None:
        return None
    if I.kind_of(value) == "bytes":
        value = c_decode_bytes(I, [value], {})
    if isinstance(value, str):
        value = AStr.of(I, value)
    if isinstance(value, AStr):
        value = AStr(value.lb, is_uid=True)
        ln = _zi(value.lb.total())
        if not allow_empty and I.branch(SV(ln == 0, "bool"), "uid-empty"):
            I.raise_("ValueError", "must not be an empty str")
        if not I.branch(SV(z3.BoolVal(validate) if isinstance(validate, bool) else I.truth(validate), "bool"), "validate"):
            return value
        # _config.VALIDATORS['UI'] with ENFORCE_UID_CONFORMANCE False: 1..64 characters
        if I.branch(SV(ln > 64, "bool"), "uid-too-long"):
            I.raise_("ValueError", "must not exceed 64 characters")
        return value
    I.raise_("TypeError", "must be str, bytes, UID or None")


def c_set_ae(I, args, kw):
    names = ["value", "name", "allow_empty", "allow_none"]
    a = dict(zip(names, args))
    a.update(kw)
    value, allow_empty, allow_none = a["value"], a.get("allow_empty", True), a.get("allow_none", True)
    if allow_none and value is None:
        return None
    if isinstance(value, str):
        value = AStr.of(I, value)
    if isinstance(value, AStr):
        ln = _zi(value.lb.total())
        wf = all(isinstance(s, Raw) or (isinstance(s, Blob) and s.pred is title_pred and s.trimmed) for s in value.lb.segs)
        if not wf:
            # unknown content: validation may fail
            if I.choose(2, "set_ae-invalid") == 1:
                I.raise_("ValueError", "invalid AE value")
        if not allow_empty and I.branch(SV(ln == 0, "bool"), "ae-empty"):
            I.raise_("ValueError", "must not be an empty str")
        if I.branch(SV(ln > 16, "bool"), "ae-too-long"):
            I.raise_("ValueError", "must not exceed 16 characters")
        return value
    I.raise_("TypeError", "must be str")


def c_validate_uid(I, args, kw):
    v = args[0]
    ln = _zi(AStr.of(I, v).lb.total()) if isinstance(v, (AStr, str)) else None
    if ln is None:
        raise Unsupported("validate_uid on non-string")
    return SV(z3.And(ln > 0, ln < 65), "bool")


def c_UID(I, args, kw):
    v = args[0]
    if isinstance(v, str):
        v = AStr.of(I, v)
    if isinstance(v, AStr):
        return AStr(v.lb, is_uid=True)
    raise Unsupported("UID() of non-string")


def codec_config(prefix):
    c = Config()
    c.ob_prefix = prefix
    c.summaries[f"{UT}:set_uid"] = c_set_uid
    c.summaries[f"{UT}:set_ae"] = c_set_ae
    c.summaries[f"{UT}:decode_bytes"] = c_decode_bytes
    c.summaries[f"{UT}:validate_uid"] = c_validate_uid
    c.ext_models["pydicom.uid.UID"] = c_UID
    c.module_consts[("pynetdicom._config", "ENFORCE_UID_CONFORMANCE")] = False
    return c


# ---------------------------------------------------------------------------------------------
# building well-formed objects of each class
# ---------------------------------------------------------------------------------------------
def new(I, mod, cls):
    return I.instantiate(I.repo.cls(f"{mod}:{cls}"), [], {})


def mk_item(I, cls, tag, shape=None):
    """a symbolic well-formed instance of item class `cls`; returns (obj, {named field: value})"""
    o = new(I, ITM, cls)
    t = tag
    f = {}
    if cls == "ApplicationContextItem":
        f["application_context_name"] = sym_uid(I, f"{t}.name")
        o.fields["_application_context_name"] = f["application_context_name"]
    elif cls == "AbstractSyntaxSubItem":
        f["abstract_syntax_name"] = sym_uid(I, f"{t}.name")
        o.fields["_abstract_syntax_name"] = f["abstract_syntax_name"]
    elif cls == "TransferSyntaxSubItem":
        f["transfer_syntax_name"] = sym_uid(I, f"{t}.name")
        o.fields["_transfer_syntax_name"] = f["transfer_syntax_name"]
    elif cls == "MaximumLengthSubItem":
        f["maximum_length_received"] = sym_int(I, f"{t}.max", 0, 2 ** 32 - 1)
        o.fields["maximum_length_received"] = f["maximum_length_received"]
    elif cls == "ImplementationClassUIDSubItem":
        f["implementation_class_uid"] = sym_uid(I, f"{t}.uid")
        o.fields["_implementation_class_uid"] = f["implementation_class_uid"]
    elif cls == "ImplementationVersionNameSubItem":
        f["implementation_version_name"] = sym_title(I, f"{t}.name")
        o.fields["_implementation_version_name"] = f["implementation_version_name"]
    elif cls == "AsynchronousOperationsWindowSubItem":
        for k in ("maximum_number_operations_invoked", "maximum_number_operations_performed"):
            f[k] = sym_int(I, f"{t}.{k[-8:]}", 0, 65535)
            o.fields[k] = f[k]
    elif cls == "SCP_SCU_RoleSelectionSubItem":
        f["sop_class_uid"] = sym_uid(I, f"{t}.uid")
        f["scu_role"] = sym_int(I, f"{t}.scu", 0, 1)
        f["scp_role"] = sym_int(I, f"{t}.scp", 0, 1)
        o.fields.update(_sop_class_uid=f["sop_class_uid"], _scu_role=f["scu_role"], _scp_role=f["scp_role"])
    elif cls == "SOPClassExtendedNegotiationSubItem":
        f["sop_class_uid"] = sym_uid(I, f"{t}.uid")
        f["service_class_application_information"] = sym_bytes(I, f"{t}.info", 0, 60000)
        o.fields.update(_sop_class_uid=f["sop_class_uid"],
                        service_class_application_information=f["service_class_application_information"])
    elif cls == "SOPClassCommonExtendedNegotiationSubItem":
        f["sub_item_version"] = 0
        f["sop_class_uid"] = sym_uid(I, f"{t}.sop")
        f["service_class_uid"] = sym_uid(I, f"{t}.svc")
        n = shape if shape is not None else 1
        f["related_general_sop_class_identification"] = [sym_uid(I, f"{t}.rel{i}") for i in range(n)]
        o.fields.update(_sop_class_uid=f["sop_class_uid"], _service_class_uid=f["service_class_uid"],
                        _related_general_sop_class_identification=list(f["related_general_sop_class_identification"]))
    elif cls == "UserIdentitySubItemRQ":
        f["user_identity_type"] = sym_int(I, f"{t}.type", 1, 5)
        f["positive_response_requested"] = sym_int(I, f"{t}.resp", 0, 1)
        f["primary_field"] = sym_bytes(I, f"{t}.primary", 0, 30000)          # ANY length including 0
        f["secondary_field"] = sym_bytes(I, f"{t}.secondary", 0, 30000)
        o.fields.update(user_identity_type=f["user_identity_type"], positive_response_requested=f["positive_response_requested"],
                        primary_field=f["primary_field"], secondary_field=f["secondary_field"])
    elif cls == "UserIdentitySubItemAC":
        f["server_response"] = sym_bytes(I, f"{t}.response", 0, 60000)
        o.fields["server_response"] = f["server_response"]
    elif cls == "PresentationDataValueItem":
        f["presentation_context_id"] = sym_int(I, f"{t}.ctx", 0, 255)
        # any length whose PDU still fits the 4-byte PDU-length field (a few such items per PDU)
        f["presentation_data_value"] = sym_bytes(I, f"{t}.pdv", 1, 2 ** 30)
        o.fields.update(presentation_context_id=f["presentation_context_id"], presentation_data_value=f["presentation_data_value"])
    elif cls == "PresentationContextItemRQ":
        n = shape if shape is not None else 1
        f["presentation_context_id"] = sym_int(I, f"{t}.id", 0, 255)
        subs = [mk_item(I, "AbstractSyntaxSubItem", f"{t}.as")] + [mk_item(I, "TransferSyntaxSubItem", f"{t}.ts{i}") for i in range(n)]
        f["abstract_transfer_syntax_sub_items"] = subs
        o.fields.update(presentation_context_id=f["presentation_context_id"],
                        abstract_transfer_syntax_sub_items=[s[0] for s in subs])
    elif cls == "PresentationContextItemAC":
        n = shape if shape is not None else 1
        f["presentation_context_id"] = sym_int(I, f"{t}.id", 0, 255)
        f["result_reason"] = sym_int(I, f"{t}.result", 0, 4)
        subs = [mk_item(I, "TransferSyntaxSubItem", f"{t}.ts{i}") for i in range(n)]
        f["transfer_syntax_sub_item"] = subs
        o.fields.update(presentation_context_id=f["presentation_context_id"], result_reason=f["result_reason"],
                        transfer_syntax_sub_item=[s[0] for s in subs])
    elif cls == "UserInformationItem":
        kinds = shape if shape is not None else ["MaximumLengthSubItem", "ImplementationClassUIDSubItem"]
        subs = [mk_item(I, k, f"{t}.u{i}") for i, k in enumerate(kinds)]
        f["user_data"] = subs
        o.fields["user_data"] = [s[0] for s in subs]
    else:
        raise Unsupported(f"no builder for {cls}")
    return o, f


def mk_pdu(I, cls, shape=None):
    o = new(I, PDUM, cls)
    f = {}
    if cls in ("A_ASSOCIATE_RQ", "A_ASSOCIATE_AC"):
        f["protocol_version"] = sym_int(I, "protocol_version", 0, 65535)
        o.fields["protocol_version"] = f["protocol_version"]
        if cls == "A_ASSOCIATE_RQ":
            f["called_ae_title"], f["calling_ae_title"] = sym_title(I, "called"), sym_title(I, "calling")
            o.fields.update(_called_aet=f["called_ae_title"], _calling_aet=f["calling_ae_title"])
            pc = "PresentationContextItemRQ"
        else:
            f["reserved_aet"], f["reserved_aec"] = sym_title(I, "called"), sym_title(I, "calling")
            o.fields.update(_reserved_aet=f["reserved_aet"], _reserved_aec=f["reserved_aec"])
            pc = "PresentationContextItemAC"
        n = shape if shape is not None else 1
        items = [mk_item(I, "ApplicationContextItem", "app")] + [mk_item(I, pc, f"pc{i}") for i in range(n)] + \
            [mk_item(I, "UserInformationItem", "ui")]
        f["variable_items"] = items
        o.fields["variable_items"] = [x[0] for x in items]
    elif cls == "A_ASSOCIATE_RJ":
        f["result"], f["source"], f["reason_diagnostic"] = sym_int(I, "result", 1, 2), sym_int(I, "source", 1, 3), sym_int(I, "reason", 1, 7)
        o.fields.update(f)
    elif cls == "A_ABORT_RQ":
        f["source"], f["reason_diagnostic"] = sym_int(I, "source", 0, 2), sym_int(I, "reason", 0, 6)
        o.fields.update(f)
    elif cls == "P_DATA_TF":
        n = shape if shape is not None else 1
        items = [mk_item(I, "PresentationDataValueItem", f"pdv{i}") for i in range(n)]
        f["presentation_data_value_items"] = items
        o.fields["presentation_data_value_items"] = [x[0] for x in items]
    return o, f


# ---------------------------------------------------------------------------------------------
# the PS3.8 layout of a value, as layout segments
# ---------------------------------------------------------------------------------------------
def cls_layout(cls):
    return L.PDU.get(cls) or L.ITEM[cls]


def field_lb(I, kind, val):
    """layout of one named field"""
    if kind == "str":
        return val.lb if isinstance(val, AStr) else AStr.of(I, val).lb
    if kind == "str16":
        lb = val.lb
        ln = _zi(lb.total())
        return lb.concat(I, LB([Fill(z3.If(16 - ln > 0, 16 - ln, 0), 0x20)]))
    if kind == "bytes":
        return LB.of(I, val)
    if kind == "items":
        out = LB()
        for (o, f) in val:
            out = out.concat(I, spec_lb(I, o.cls.name, f))
        return out
    if kind == "uidlist":
        out = LB()
        for u in val:
            out = out.concat(I, LB([UInt(2, _zi(u.lb.total()))])).concat(I, u.lb)
        return out
    raise Unsupported(kind)


def spec_lb(I, cls, f):
    lay = cls_layout(cls)["fields"]
    parts = []       # (LB or ("len", k, nbytes) placeholder)
    named = {}
    for fld in lay:
        kind = fld[0]
        if kind in ("u8", "u16", "u32"):
            n = {"u8": 1, "u16": 2, "u32": 4}[kind]
            v = fld[1]
            if isinstance(v, int):
                parts.append(LB([UInt(n, v)]))
            elif v[0] == "attr":
                parts.append(LB([UInt(n, _zi(f[v[1]]))]))
            else:
                parts.append((v, n))
        elif kind == "zero":
            parts.append(LB([Raw(b"\x00" * fld[1])]))
        else:
            lb = field_lb(I, kind, f[fld[1]])
            named[fld[1]] = lb
            parts.append(lb)
    # resolve length placeholders
    out = LB()
    for i, p in enumerate(parts):
        if isinstance(p, LB):
            out = out.concat(I, p)
        else:
            (how, arg), n = p
            if how == "len":
                tot = 0
                for q in parts[i + 1:]:
                    tot = tot + (q.total() if isinstance(q, LB) else q[1])
                out = out.concat(I, LB([UInt(n, _zi(tot) - arg)]))
            else:
                out = out.concat(I, LB([UInt(n, _zi(named_total(I, parts, lay, arg)))]))
    return out


def named_total(I, parts, lay, name):
    for p, fld in zip(parts, lay):
        if fld[0] in ("str", "str16", "bytes", "items", "uidlist") and fld[1] == name:
            return p.total()
    raise Unsupported(f"lenof {name}")


def atoms(lb: LB):
    """normalise: concrete bytes and concrete packed ints become single concrete bytes"""
    out = []
    for s in lb.segs:
        if isinstance(s, Raw):
            out.extend(("b", x) for x in s.data)
        elif isinstance(s, UInt) and _conc(s.e) is not None:
            v = _conc(s.e)
            if not (0 <= v < 256 ** s.n):
                out.append(("badint", s.n, v))
            else:
                out.extend(("b", x) for x in v.to_bytes(s.n, "big"))
        elif isinstance(s, UInt):
            out.append(("u", s.n, s.e))
        elif isinstance(s, Fill):
            c = _conc(_zi(s.n))
            if c is not None:
                out.extend(("b", s.value) for _ in range(c))
            else:
                out.append(("fill", _zi(s.n), s.value))
        else:
            out.append(("seq", s))
    return out


def layouts_equal(I, got: LB, want: LB):
    """z3 Bool / bool: byte-for-byte equality, established field by field; also returns a description.
    Concrete bytes on one side are matched against packed integers on the other (value equality)."""
    a, b = atoms(got), atoms(want)
    conj = []
    i = j = 0

    def take_bytes(xs, k, n):
        if k + n <= len(xs) and all(x[0] == "b" for x in xs[k:k + n]):
            return int.from_bytes(bytes(x[1] for x in xs[k:k + n]), "big")
        return None
    while i < len(a) and j < len(b):
        x, y = a[i], b[j]
        if x[0] == "b" and y[0] == "b":
            if x[1] != y[1]:
                return False, f"byte {x[1]:#x} where PS3.8 has {y[1]:#x} (cell {i})"
            i, j = i + 1, j + 1
        elif x[0] == "u" and y[0] == "u":
            if x[1] != y[1]:
                return False, f"field width {x[1]} where PS3.8 has {y[1]}"
            conj.append(x[2] == y[2])
            i, j = i + 1, j + 1
        elif x[0] == "u" and y[0] == "b":
            v = take_bytes(b, j, x[1])
            if v is None:
                return False, "packed field against non-constant bytes"
            conj.append(x[2] == v)
            i, j = i + 1, j + x[1]
        elif x[0] == "b" and y[0] == "u":
            v = take_bytes(a, i, y[1])
            if v is None:
                return False, "constant bytes against packed field of another width"
            conj.append(y[2] == v)
            i, j = i + y[1], j + 1
        elif x[0] == "fill" and y[0] == "fill":
            if x[2] != y[2]:
                return False, "padding byte differs"
            conj.append(x[1] == y[1])
            i, j = i + 1, j + 1
        elif x[0] == "seq" and y[0] == "seq":
            sx, sy = x[1], y[1]
            if not (isinstance(sx, Blob) and isinstance(sy, Blob) and sx.e.eq(sy.e)):
                conj.append(sx.to_z3() == sy.to_z3())
            i, j = i + 1, j + 1
        elif x[0] == "seq" and I.valid(_zi(x[1].width()) == 0):
            i += 1          # an empty field on this path
        elif y[0] == "seq" and I.valid(_zi(y[1].width()) == 0):
            j += 1
        elif x[0] == "fill" and I.valid(x[1] == 0):
            i += 1
        elif y[0] == "fill" and I.valid(y[1] == 0):
            j += 1
        elif x[0] == "badint" or y[0] == "badint":
            return False, "constant does not fit its field"
        else:
            return False, f"segment kinds differ at cell {i}/{j}: {x!r} vs {y!r}"
    for rest in (a[i:], b[j:]):
        for x in rest:
            if x[0] == "seq" and I.valid(_zi(x[1].width()) == 0):
                continue
            if x[0] == "fill" and I.valid(x[1] == 0):
                continue
            return False, f"different lengths: extra {x!r}"
    if not conj:
        return True, "identical"
    return z3.And(conj) if len(conj) > 1 else conj[0], "field-wise"


# ---------------------------------------------------------------------------------------------
# tasks
# ---------------------------------------------------------------------------------------------
def values_equal(I, a, b):
    """field equality after a round trip (lists of objects compared field-wise by the caller)"""
    if isinstance(a, AStr) or isinstance(b, AStr):
        if a is None or b is None:
            return False
        return AStr.of(I, a).sym_eq(I, b)
    if isinstance(a, LB) or isinstance(b, LB):
        if a is None or b is None:
            return False
        return LB.of(I, a).sym_eq(I, b)
    return I.eq(a, b)


def compare_obj(I, got, f):
    """got: decoded Obj ; f: {field: original value}; returns list of (field, z3 Bool/bool)"""
    out = []
    for name, want in f.items():
        try:
            g = I.getattr(got, name)
        except PyRaise as pr:
            out.append((name, False))
            continue
        if isinstance(want, list) and want and isinstance(want[0], tuple):
            if not isinstance(g, list) or len(g) != len(want):
                out.append((name, False))
                continue
            for k, ((wo, wf), go) in enumerate(zip(want, g)):
                if not isinstance(go, Obj) or go.cls is not wo.cls:
                    out.append((f"{name}[{k}]", False))
                    continue
                out.extend((f"{name}[{k}].{n2}", v2) for n2, v2 in compare_obj(I, go, wf))
        elif isinstance(want, list):
            if not isinstance(g, list) or len(g) != len(want):
                out.append((name, False))
                continue
            for k, (w_, g_) in enumerate(zip(want, g)):
                out.append((f"{name}[{k}]", values_equal(I, g_, w_)))
        else:
            out.append((name, values_equal(I, g, want)))
    return out


class LayoutTask(Task):
    def __init__(self, cls, shape=None, prefix="C01/", label=None):
        self.cls, self.shape, self.prefix = cls, shape, prefix
        self.is_pdu = cls in L.PDU
        self.mod = PDUM if self.is_pdu else ITM
        self.name = f"codec/{cls}" + (f"/{label if label is not None else shape}" if shape is not None else "")
        base = "PDU" if self.is_pdu else "PDUItem"
        self.functions = [f"{self.mod}:{base}.encode", f"{self.mod}:{base}.decode", f"{self.mod}:{cls}._encoders.fget",
                          f"{self.mod}:{cls}._decoders.fget"]

    def config(self, repo):
        return codec_config(self.prefix)

    def body(self, I):
        cls = self.cls
        P = f"{self.prefix}{self.mod}:{cls}"
        o, f = (mk_pdu if self.is_pdu else mk_item)(I, cls, *([] if self.is_pdu else ["v"]), self.shape) if self.is_pdu \
            else mk_item(I, cls, "v", self.shape)
        # --- O1/O3: encode
        try:
            enc = I.call_value(I.getattr(o, "encode"), [], {})
        except PyRaise as pr:
            I.ob(f"{P}/encode:no-exception-for-well-formed-values", False, detail=repr(pr.exc))
            return
        I.ob(f"{P}/encode:no-exception-for-well-formed-values", True)
        enc = LB.of(I, enc)
        want = spec_lb(I, cls, f)
        ok, how = layouts_equal(I, enc, want)
        I.ob(f"{P}/encode:bytes-are-exactly-the-PS3.8-layout", ok, detail=how)
        # --- O2: lengths
        hdr = 6 if self.is_pdu else 4
        try:
            ln = I.call_value(I.getattr(o, "__len__"), [], {})
            lfield = I.getattr(o, "pdu_length" if self.is_pdu else "item_length")
            tot = _zi(enc.total())
            I.ob(f"{P}/len()-equals-header-plus-length-field-equals-encoded-size",
                 z3.And(_zi(ln) == tot, _zi(lfield) + hdr == tot))
        except PyRaise as pr:
            I.ob(f"{P}/len()-equals-header-plus-length-field-equals-encoded-size", False, detail=repr(pr.exc))
        # --- O4: decode(encode(v)) == v
        new_o = I.instantiate(I.repo.cls(f"{self.mod}:{cls}"), [], {})
        try:
            I.call_value(I.getattr(new_o, "decode"), [enc], {})
        except PyRaise as pr:
            I.ob(f"{P}/decode:accepts-its-own-encoding", False, detail=repr(pr.exc))
            return
        I.ob(f"{P}/decode:accepts-its-own-encoding", True)
        for name, okv in compare_obj(I, new_o, f):
            base_name = name.split("[")[0] if "[" in name else name
            I.ob(f"{P}/round-trip:{base_name}-restored", okv, detail=name)


# list multiplicities for which the containers are checked (field values and lengths stay symbolic)
UI_KINDS = ["MaximumLengthSubItem", "ImplementationClassUIDSubItem", "ImplementationVersionNameSubItem",
            "AsynchronousOperationsWindowSubItem", "SCP_SCU_RoleSelectionSubItem", "SOPClassExtendedNegotiationSubItem",
            "SOPClassCommonExtendedNegotiationSubItem", "UserIdentitySubItemRQ", "UserIdentitySubItemAC"]


def layout_tasks(prefix="C01/"):
    ts = []
    for cls in L.ITEM:
        if cls in ("PresentationContextItemRQ", "PresentationContextItemAC"):
            for n in (0, 1, 2) if cls.endswith("RQ") else (0, 1):
                ts.append(LayoutTask(cls, n, prefix))
        elif cls == "UserInformationItem":
            ts.append(LayoutTask(cls, [], prefix, "empty"))
            ts.append(LayoutTask(cls, UI_KINDS[:2], prefix, "max+impl"))
            for k in UI_KINDS[2:]:
                ts.append(LayoutTask(cls, UI_KINDS[:2] + [k], prefix, f"+{k}"))
            ts.append(LayoutTask(cls, UI_KINDS[:2] + [UI_KINDS[4], UI_KINDS[4]], prefix, "two-role-items"))
        elif cls == "SOPClassCommonExtendedNegotiationSubItem":
            for n in (0, 1, 2):
                ts.append(LayoutTask(cls, n, prefix))
        else:
            ts.append(LayoutTask(cls, None, prefix))
    for cls in L.PDU:
        if cls in ("A_ASSOCIATE_RQ", "A_ASSOCIATE_AC", "P_DATA_TF"):
            for n in (0, 1, 2):
                ts.append(LayoutTask(cls, n, prefix))
        else:
            ts.append(LayoutTask(cls, None, prefix))
    return ts


# ---------------------------------------------------------------------------------------------
# O6: service primitive -> PDU -> bytes -> PDU -> primitive preserves every transmitted parameter
# ---------------------------------------------------------------------------------------------
PRIM = "pynetdicom.pdu_primitives"
PRES = "pynetdicom.presentation"
# parameters PS3.8 (7.1.1, Annex D) transmits, per user-information primitive
UI_PARAMS = {
    "MaximumLengthNotification": ["maximum_length_received"],
    "ImplementationClassUIDNotification": ["implementation_class_uid"],
    "ImplementationVersionNameNotification": ["implementation_version_name"],
    "AsynchronousOperationsWindowNegotiation": ["maximum_number_operations_invoked", "maximum_number_operations_performed"],
    "SCP_SCU_RoleSelectionNegotiation": ["sop_class_uid", "scu_role", "scp_role"],
    "SOPClassExtendedNegotiation": ["sop_class_uid", "service_class_application_information"],
    "SOPClassCommonExtendedNegotiation": ["sop_class_uid", "service_class_uid", "related_general_sop_class_identification"],
    "UserIdentityNegotiation/rq": ["user_identity_type", "positive_response_requested", "primary_field", "secondary_field"],
    "UserIdentityNegotiation/ac": ["server_response"],
}


def mk_ui_prim(I, kind, tag):
    """a well-formed user-information primitive, parameters set through the REAL setters; returns (obj, {param: value})"""
    cls = kind.split("/")[0]
    p = new(I, PRIM, cls)
    v = {}
    if cls == "MaximumLengthNotification":
        v["maximum_length_received"] = sym_int(I, f"{tag}.max", 0, 2 ** 32 - 1)
    elif cls == "ImplementationClassUIDNotification":
        v["implementation_class_uid"] = sym_uid(I, f"{tag}.uid")
    elif cls == "ImplementationVersionNameNotification":
        v["implementation_version_name"] = sym_title(I, f"{tag}.name")
    elif cls == "AsynchronousOperationsWindowNegotiation":
        v["maximum_number_operations_invoked"] = sym_int(I, f"{tag}.inv", 0, 65535)
        v["maximum_number_operations_performed"] = sym_int(I, f"{tag}.perf", 0, 65535)
    elif cls == "SCP_SCU_RoleSelectionNegotiation":
        v["sop_class_uid"] = sym_uid(I, f"{tag}.uid")
        scu, scp = [(True, True), (True, False), (False, True)][I.choose(3, "roles")]
        v["scu_role"], v["scp_role"] = scu, scp
    elif cls == "SOPClassExtendedNegotiation":
        v["sop_class_uid"] = sym_uid(I, f"{tag}.uid")
        v["service_class_application_information"] = sym_bytes(I, f"{tag}.info", 0, 60000)
    elif cls == "SOPClassCommonExtendedNegotiation":
        v["sop_class_uid"] = sym_uid(I, f"{tag}.sop")
        v["service_class_uid"] = sym_uid(I, f"{tag}.svc")
        v["related_general_sop_class_identification"] = [sym_uid(I, f"{tag}.rel{i}") for i in range(I.choose(3, "nrel"))]
    elif kind == "UserIdentityNegotiation/rq":
        t = sym_int(I, f"{tag}.type", 1, 5)
        v["user_identity_type"] = t
        v["positive_response_requested"] = [False, True][I.choose(2, "resp")]
        v["primary_field"] = sym_bytes(I, f"{tag}.primary", 0, 30000)
        sec = sym_bytes(I, f"{tag}.secondary", 0, 30000)
        # PS3.7 D.3.3.7: the secondary field is only used with identity type 2 and is then non-empty
        I.assume(z3.If(t.e == 2, _zi(sec.total()) >= 1, _zi(sec.total()) == 0))
        v["secondary_field"] = sec
    elif kind == "UserIdentityNegotiation/ac":
        v["server_response"] = sym_bytes(I, f"{tag}.rsp", 0, 60000)
    for k, val in v.items():
        I.setattr(p, k, val)
    return p, v


def mk_pcontext(I, tag, nts, with_result=None):
    c = new(I, PRES, "PresentationContext")
    v = {"context_id": sym_int(I, f"{tag}.id", 1, 255), "abstract_syntax": sym_uid(I, f"{tag}.as"),
         "transfer_syntax": [sym_uid(I, f"{tag}.ts{i}") for i in range(nts)]}
    I.assume(v["context_id"].e % 2 == 1)
    # the transfer syntaxes of one context are pairwise distinct (a context's transfer syntaxes form a set)
    for a_ in range(nts):
        for b_ in range(a_ + 1, nts):
            I.assume(v["transfer_syntax"][a_].lb.to_z3() != v["transfer_syntax"][b_].lb.to_z3())
    c.fields.update(_context_id=v["context_id"], _abstract_syntax=v["abstract_syntax"], _transfer_syntax=list(v["transfer_syntax"]))
    if with_result is not None:
        v["result"] = with_result
        c.fields["result"] = with_result
    return c, v


def cmp_param(I, got, want):
    if isinstance(want, list):
        if not isinstance(got, list) or len(got) != len(want):
            return False
        parts = [values_equal(I, g, w) for g, w in zip(got, want)]
        if any(p is False for p in parts):
            return False
        sym = [p for p in parts if not isinstance(p, bool)]
        return z3.And(sym) if sym else True
    return values_equal(I, got, want)


class PrimTask(Task):
    """one service primitive kind through from_primitive -> encode -> decode -> to_primitive"""

    def __init__(self, kind, shape=None, prefix="C01/"):
        self.kind, self.shape, self.prefix = kind, shape, prefix
        self.name = f"primitive/{kind}" + (f"/{shape}" if shape is not None else "")
        self.functions = []

    def config(self, repo):
        return codec_config(self.prefix)

    def chain(self, I, P, pdu_cls, prim, mod=PDUM):
        """returns the primitive obtained after the full chain, or None (obligation recorded)"""
        try:
            pdu = I.instantiate(I.repo.cls(f"{mod}:{pdu_cls}"), [], {})
            I.call_value(I.getattr(pdu, "from_primitive"), [prim], {})
            enc = I.call_value(I.getattr(pdu, "encode"), [], {})
            new_pdu = I.instantiate(I.repo.cls(f"{mod}:{pdu_cls}"), [], {})
            I.call_value(I.getattr(new_pdu, "decode"), [enc], {})
            out = I.call_value(I.getattr(new_pdu, "to_primitive"), [], {})
        except PyRaise as pr:
            I.ob(f"{P}/chain:no-exception-for-well-formed-parameters", False, detail=repr(pr.exc))
            return None, None
        I.ob(f"{P}/chain:no-exception-for-well-formed-parameters", True)
        return pdu, out

    def body(self, I):
        k = self.kind
        P = f"{self.prefix}primitive:{k}"
        if k in UI_PARAMS:
            prim, v = mk_ui_prim(I, k, "p")
            try:
                item = I.call_value(I.getattr(prim, "from_primitive"), [], {})
                enc = I.call_value(I.getattr(item, "encode"), [], {})
                item2 = I.instantiate(item.cls, [], {})
                I.call_value(I.getattr(item2, "decode"), [enc], {})
                out = I.call_value(I.getattr(item2, "to_primitive"), [], {})
            except PyRaise as pr:
                I.ob(f"{P}/chain:no-exception-for-well-formed-parameters", False, detail=repr(pr.exc))
                return
            I.ob(f"{P}/chain:no-exception-for-well-formed-parameters", True)
            I.ob(f"{P}/same-primitive-type", isinstance(out, Obj) and out.cls is prim.cls)
            for name in UI_PARAMS[k]:
                I.ob(f"{P}/parameter-{name}-preserved", cmp_param(I, I.getattr(out, name), v[name]), detail=name)
            return
        if k == "P_DATA":
            n = self.shape
            prim = new(I, PRIM, "P_DATA")
            pdvs = [(sym_int(I, f"pdv{i}.ctx", 1, 255), sym_bytes(I, f"pdv{i}.data", 1, 2 ** 30)) for i in range(n)]
            prim.fields["_presentation_data_value_list"] = [(c, d) for c, d in pdvs]
            pdu, out = self.chain(I, P, "P_DATA_TF", prim)
            if out is None:
                return
            items = pdu.fields.get("presentation_data_value_items")
            I.ob(f"{P}/from_primitive:one-distinct-PDV-item-per-value-in-order",
                 isinstance(items, list) and len(items) == n and len({id(x) for x in items}) == n)
            got = I.getattr(out, "presentation_data_value_list")
            ok = isinstance(got, list) and len(got) == n
            I.ob(f"{P}/parameter-presentation_data_value_list-preserved",
                 ok and _all([z3.And(_b(I.eq(g[0], c)), _b(values_equal(I, g[1], d))) for g, (c, d) in zip(got, pdvs)]))
            return
        if k == "A_ABORT":
            prim = new(I, PRIM, "A_ABORT")
            src = [0, 2][I.choose(2, "source")]
            I.setattr(prim, "abort_source", src)
            pdu, out = self.chain(I, P, "A_ABORT_RQ", prim)
            if out is None:
                return
            # source 2 travels as a provider abort (A-P-ABORT, reason 0)
            if src == 2:
                I.ob(f"{P}/provider-source-arrives-as-A-P-ABORT", isinstance(out, Obj) and out.cls.name == "A_P_ABORT")
            else:
                I.ob(f"{P}/parameter-abort_source-preserved", isinstance(out, Obj) and out.cls.name == "A_ABORT" and
                     I.getattr(out, "abort_source") == src)
            return
        if k == "A_P_ABORT":
            prim = new(I, PRIM, "A_P_ABORT")
            r = sym_int(I, "provider_reason", 0, 6)
            I.assume(r.e != 3)
            I.setattr(prim, "provider_reason", r)
            pdu, out = self.chain(I, P, "A_ABORT_RQ", prim)
            if out is None:
                return
            I.ob(f"{P}/parameter-provider_reason-preserved", isinstance(out, Obj) and out.cls.name == "A_P_ABORT" and
                 _b(I.eq(I.getattr(out, "provider_reason"), r)))
            return
        if k in ("A_RELEASE/rq", "A_RELEASE/rp"):
            prim = new(I, PRIM, "A_RELEASE")
            if k.endswith("rp"):
                I.setattr(prim, "result", "affirmative")
            pdu, out = self.chain(I, P, "A_RELEASE_RQ" if k.endswith("rq") else "A_RELEASE_RP", prim)
            if out is None:
                return
            I.ob(f"{P}/parameter-result-preserved", isinstance(out, Obj) and out.cls.name == "A_RELEASE" and
                 I.getattr(out, "result") == (None if k.endswith("rq") else "affirmative"))
            return
        if k == "A_ASSOCIATE/rj":
            prim = new(I, PRIM, "A_ASSOCIATE")
            res, src = sym_int(I, "result", 1, 2), sym_int(I, "source", 1, 3)
            rsn = sym_int(I, "reason", 1, 7)
            I.assume(z3.Or(z3.And(src.e == 1, z3.Or(rsn.e == 1, rsn.e == 2, rsn.e == 3, rsn.e == 7)), z3.And(src.e != 1, rsn.e <= 2)))
            for n_, v_ in (("result", res), ("result_source", src), ("diagnostic", rsn)):
                I.setattr(prim, n_, v_)
            pdu, out = self.chain(I, P, "A_ASSOCIATE_RJ", prim)
            if out is None:
                return
            for n_, v_ in (("result", res), ("result_source", src), ("diagnostic", rsn)):
                I.ob(f"{P}/parameter-{n_}-preserved", _b(I.eq(I.getattr(out, n_), v_)))
            return
        if k in ("A_ASSOCIATE/rq", "A_ASSOCIATE/ac"):
            npc, nts, ui_kinds = self.shape
            prim = new(I, PRIM, "A_ASSOCIATE")
            calling, called, app = sym_title(I, "calling"), sym_title(I, "called"), sym_uid(I, "app")
            prim.fields.update(_calling_ae_title=calling, _called_ae_title=called, _application_context_name=app)
            is_rq = k.endswith("rq")
            pcs = [mk_pcontext(I, f"pc{i}", nts if is_rq else 1, None if is_rq else [0, 3, 4][I.choose(3, "result")]) for i in range(npc)]
            prim.fields["_presentation_context_definition_list" if is_rq else "_presentation_context_definition_results_list"] = [c for c, _ in pcs]
            uis = [mk_ui_prim(I, uk, f"ui{i}") for i, uk in enumerate(ui_kinds)]
            prim.fields["_user_information"] = [u for u, _ in uis]
            if not is_rq:
                prim.fields["_result"] = 0
            pdu, out = self.chain(I, P, "A_ASSOCIATE_RQ" if is_rq else "A_ASSOCIATE_AC", prim)
            if out is None:
                return
            I.ob(f"{P}/parameter-calling_ae_title-preserved", _b(values_equal(I, I.getattr(out, "calling_ae_title"), calling)))
            I.ob(f"{P}/parameter-called_ae_title-preserved", _b(values_equal(I, I.getattr(out, "called_ae_title"), called)))
            I.ob(f"{P}/parameter-application_context_name-preserved", _b(values_equal(I, I.getattr(out, "application_context_name"), app)))
            got = I.getattr(out, "presentation_context_definition_list" if is_rq else "presentation_context_definition_results_list")
            ok = isinstance(got, list) and len(got) == npc
            I.ob(f"{P}/presentation-contexts:one-per-context-in-order", ok)
            if ok:
                for g_, (c, v) in zip(got, pcs):
                    I.ob(f"{P}/presentation-context-id-preserved", _b(I.eq(I.getattr(g_, "context_id"), v["context_id"])))
                    if is_rq:
                        I.ob(f"{P}/presentation-context-abstract-syntax-preserved",
                             _b(values_equal(I, I.getattr(g_, "abstract_syntax"), v["abstract_syntax"])))
                        I.ob(f"{P}/presentation-context-transfer-syntaxes-preserved",
                             cmp_param(I, I.getattr(g_, "transfer_syntax"), v["transfer_syntax"]))
                    else:
                        I.ob(f"{P}/presentation-context-result-preserved", _b(I.eq(I.getattr(g_, "result"), v["result"])))
                        I.ob(f"{P}/presentation-context-transfer-syntax-preserved",
                             cmp_param(I, I.getattr(g_, "transfer_syntax"), v["transfer_syntax"][:1]))
            gui = I.getattr(out, "user_information")
            ok = isinstance(gui, list) and len(gui) == len(uis) and all(isinstance(x, Obj) and x.cls is u.cls for x, (u, _) in zip(gui, uis))
            I.ob(f"{P}/user-information:same-items-in-order", ok)
            if ok:
                for x, (u, v), uk in zip(gui, uis, ui_kinds):
                    for name in UI_PARAMS[uk]:
                        I.ob(f"{P}/user-information-{uk.split('/')[0]}.{name}-preserved", cmp_param(I, I.getattr(x, name), v[name]))
            if not is_rq:
                I.ob(f"{P}/accept-is-result-0", _b(I.eq(I.getattr(out, "result"), 0)))
            return
        raise Unsupported(k)


def _all(parts):
    if any(p is False for p in parts):
        return False
    sym = [p for p in parts if not isinstance(p, bool)]
    return z3.And(sym) if sym else True


def _b(t):
    return z3.BoolVal(t) if isinstance(t, bool) else t


def primitive_tasks(prefix="C01/"):
    ts = [PrimTask(k, None, prefix) for k in UI_PARAMS]
    ts += [PrimTask("P_DATA", n, prefix) for n in (0, 1, 2, 3)]
    ts += [PrimTask(k, None, prefix) for k in ("A_ABORT", "A_P_ABORT", "A_RELEASE/rq", "A_RELEASE/rp", "A_ASSOCIATE/rj")]
    base = ["MaximumLengthNotification", "ImplementationClassUIDNotification"]
    rq_extra = [[], ["ImplementationVersionNameNotification"], ["AsynchronousOperationsWindowNegotiation"],
                ["SCP_SCU_RoleSelectionNegotiation", "SCP_SCU_RoleSelectionNegotiation"], ["SOPClassExtendedNegotiation"],
                ["SOPClassCommonExtendedNegotiation"], ["UserIdentityNegotiation/rq"]]
    for npc, nts in ((0, 1), (1, 1), (1, 2), (2, 1)):
        ts.append(PrimTask("A_ASSOCIATE/rq", (npc, nts, tuple(base)), prefix))
    for npc in (0, 1, 2):
        ts.append(PrimTask("A_ASSOCIATE/ac", (npc, 1, tuple(base)), prefix))
    for ex in rq_extra[1:]:
        ts.append(PrimTask("A_ASSOCIATE/rq", (1, 1, tuple(base + ex)), prefix))
    for ex in (["ImplementationVersionNameNotification"], ["SCP_SCU_RoleSelectionNegotiation"], ["UserIdentityNegotiation/ac"],
               ["AsynchronousOperationsWindowNegotiation"]):
        ts.append(PrimTask("A_ASSOCIATE/ac", (1, 1, tuple(base + ex)), prefix))
    return ts

"""C02 — arbitrary received bytes never crash the provider or yield unstable PDUs.

Decided here (each for ALL byte strings, no bound on length):
 (a) total classification: _read_pdu_data returns normally with exactly one receive event queued, and queues a PDU iff the
     event is a PDU event (contracts/recvpath.py, shared with C03);
 (b) the decoder cannot hang: every item-splitting loop (_generate_items x4) advances by at least its header size per
     iteration and stays inside the buffer (loop variants on arbitrary bytes); nested decodes get strictly shorter input;
 (c) stability of what was decoded, for the fixed-layout PDUs: decode(b) = v  =>  decode(encode(v)) = v;
 (d) nothing escapes after classification: a PDU is queued for the state machine only if it converts to a primitive, the
     conversion functions do not modify the PDU (so the action's own conversion cannot fail), and the DIMSE layer turns an
     undecodable P-DATA payload into Evt19 instead of raising inside the action.
"""
import ast

import z3

from pyvc.task import Task, FiniteTask
from pyvc.interp import Interp, Config, LoopSpec
from pyvc.values import SV, Obj, Env, Ev, ExcVal, PyRaise, ByteArr, Unsupported, GenObj, SymSeq
from contracts import recvpath
from contracts.recvpath import READ, DECODE

PROPERTY = "C02"
LEVEL = "other"
PDU = "pynetdicom.pdu"
ITEMS = "pynetdicom.pdu_items"
DIMSE = "pynetdicom.dimse"
RECVP = f"{DIMSE}:DIMSEServiceProvider.receive_primitive"
ASSUMPTIONS = [
    "assumed contract of socket.socket.recv (see C03); struct.unpack model: raises struct.error iff the buffer length differs "
    "from the format size, otherwise the big-endian value of the bytes",
    "exceptions considered are those of DESIGN 1.1(6); RecursionError for pathologically deep item nesting is outside (A-EXC): "
    "it would be caught by _read_pdu_data's `except Exception` like any other decode failure",
    "DIMSEMessage.decode_msg and message_to_primitive are represented by 'returns or raises any Exception' (pydicom inside)",
    "to_primitive is deterministic given that it does not modify the PDU (frame scan below) and reads only the PDU's fields",
]
NOT_DECIDED = [
    "(c) stability for A-ASSOCIATE-RQ/AC and P-DATA-TF values decoded from arbitrary bytes (nested variable items): only the "
    "fixed-layout PDUs (A-ASSOCIATE-RJ, A-RELEASE-RQ/RP, A-ABORT) are proved stable here; well-formed RQ/AC/P-DATA values are "
    "covered by C01's round-trip obligations",
    "'never rejects a PDU that conforms to PS3.8' is C01's decode(encode(v)) == v for well-formed v (acceptance of every "
    "conformant encoding, e.g. optional items in any order, is not enumerated)",
]


# ---------------------------------------------------------------------------------------------
# (b) item-splitting loops on arbitrary bytes
# ---------------------------------------------------------------------------------------------
GEN = {
    "PDU._generate_items": (f"{PDU}:PDU._generate_items", 4),
    "P_DATA_TF._generate_items": (f"{PDU}:P_DATA_TF._generate_items", 4),
    "PDUItem._generate_items": (f"{ITEMS}:PDUItem._generate_items", 4),
    "SOPClassCommonExtendedNegotiationSubItem._generate_items": (f"{ITEMS}:SOPClassCommonExtendedNegotiationSubItem._generate_items", 2),
}


class SplitLoop(LoopSpec):
    """invariant: 0 <= offset (the loop guard bounds it by the buffer length); variant: len(buffer) - offset"""

    def __init__(self, offset_name, buf_name):
        self.o, self.b = offset_name, buf_name

    def invariant(self, I, fr):
        return I._num(fr.locals[self.o], "int") >= 0

    def variant(self, I, fr):
        n = z3.Length(I.z(fr.locals[self.b]))
        return SV(n - I._num(fr.locals[self.o], "int"), "int")


def split_roles(fi):
    """structural roles of the splitting loop: the single while loop that looks at `buf[off : off + 1]` - in its guard
    (`while buf[off:off+1]:`) or in its body (`while True: t = buf[off:off+1]; if not t: return`) -> (off, buf)"""
    loops = [n for n in ast.walk(fi.node) if isinstance(n, (ast.While, ast.For))]
    if len(loops) != 1 or not isinstance(loops[0], ast.While):
        raise Unsupported(f"{fi.qualname}: expected exactly one while loop")
    for t in ast.walk(loops[0]):
        if (isinstance(t, ast.Subscript) and isinstance(t.value, ast.Name) and isinstance(t.slice, ast.Slice)
                and isinstance(t.slice.lower, ast.Name) and isinstance(t.slice.upper, ast.BinOp) and isinstance(t.slice.upper.op, ast.Add)
                and isinstance(t.slice.upper.left, ast.Name) and t.slice.upper.left.id == t.slice.lower.id
                and isinstance(t.slice.upper.right, ast.Constant) and t.slice.upper.right.value == 1):
            return t.slice.lower.id, t.value.id
    raise Unsupported(f"{fi.qualname}: the loop never looks at `buf[off:off+1]`")


class GenItemsTask(Task):
    def __init__(self, key):
        self.key = key
        self.fn, self.min_step = GEN[key]
        self.name = f"{key}/arbitrary-bytes"
        self.functions = [self.fn]

    def config(self, repo):
        c = Config()
        c.ob_prefix = "C02/"
        fi = repo.func(self.fn)
        off, buf = split_roles(fi)
        c.loop_specs[(self.fn, 0)] = SplitLoop(off, buf)
        c.ext_models["pydicom.uid.UID"] = lambda I, a, k: a[0]
        c.summaries["pynetdicom.utils:decode_bytes"] = lambda I, a, k: I.fresh("str", "decoded")
        self._roles = (off, buf)
        return c

    def body(self, I):
        P = f"C02/{self.fn}"
        b = I.input("bytes", "bytestream")
        kind, gen = I.run_function(I.repo.func(self.fn), [b])
        if not isinstance(gen, GenObj):
            I.ob(f"{P}/is-a-generator", False)
            return
        n = z3.Length(b.e)
        ys = []
        try:
            while True:
                ok, v = I.gen_next(gen)
                if not ok:
                    break
                ys.append(v)
        except PyRaise as pr:
            # a malformed buffer may make the generator raise (caught by _read_pdu_data): only the documented kinds
            I.ob(f"{P}/raises-only-AssertionError-or-struct.error-on-malformed-input",
                 pr.exc.cls_name in ("AssertionError", "struct.error"), detail=repr(pr.exc))
            return
        for v in ys:
            data = v[1] if isinstance(v, tuple) else v
            if isinstance(data, SV) and data.k == "bytes":
                # every yielded item lies inside the buffer and is at least a header long
                I.ob(f"{P}/every-yielded-item-is-a-slice-of-the-buffer-with-a-complete-header",
                     z3.And(z3.Length(data.e) >= (self.min_step if self.key != "P_DATA_TF._generate_items" else 0), z3.Length(data.e) <= n))


# ---------------------------------------------------------------------------------------------
# (d) frame scan: conversion to primitives and property getters do not modify the PDU / item
# ---------------------------------------------------------------------------------------------
MUTATORS = {"append", "extend", "insert", "pop", "remove", "clear", "update", "setdefault", "sort", "reverse", "add", "discard",
            "write", "seek", "popitem"}


def _mutations_of_self(fn_node):
    bad = []
    for n in ast.walk(fn_node):
        tg = []
        if isinstance(n, ast.Assign):
            tg = n.targets
        elif isinstance(n, (ast.AugAssign, ast.AnnAssign)):
            tg = [n.target]
        elif isinstance(n, ast.Delete):
            tg = n.targets
        for t in tg:
            for x in ast.walk(t):
                if isinstance(x, (ast.Attribute, ast.Subscript)):
                    root = x
                    while isinstance(root, (ast.Attribute, ast.Subscript)):
                        root = root.value
                    if isinstance(root, ast.Name) and root.id == "self":
                        bad.append(f"line {n.lineno}: assignment through self")
        if isinstance(n, ast.Call):
            f = n.func
            if isinstance(f, ast.Name) and f.id in ("setattr", "delattr") and n.args and isinstance(n.args[0], ast.Name) and n.args[0].id == "self":
                bad.append(f"line {n.lineno}: {f.id}(self, ...)")
            if isinstance(f, ast.Attribute) and f.attr in MUTATORS:
                root = f.value
                while isinstance(root, (ast.Attribute, ast.Subscript)):
                    root = root.value
                if isinstance(root, ast.Name) and root.id == "self":
                    bad.append(f"line {n.lineno}: self...{f.attr}()")
    return bad


class ConversionFrameTask(FiniteTask):
    """every to_primitive method and every property getter of the PDU and item classes leaves `self` unchanged - so a
    conversion that succeeded in _read_pdu_data succeeds again, with the same result, when the state-machine action
    converts the same PDU object"""
    name = "frame/to_primitive-and-getters-do-not-modify-the-PDU"
    functions = []

    def check(self, repo, emit):
        n_tp = 0
        for modn in (PDU, ITEMS):
            m = repo.module(modn)
            for cn, ci in m.classes.items():
                for mn, fi in ci.methods.items():
                    if mn == "to_primitive":
                        n_tp += 1
                        bad = _mutations_of_self(fi.node)
                        emit(f"C02/{modn}:{cn}.to_primitive/frame:does-not-modify-self", not bad, detail=bad[:3])
                bad = []
                for pn, pi in ci.props.items():
                    if pi.fget is not None:
                        bad += [f"{pn}: {x}" for x in _mutations_of_self(pi.fget.node)]
                emit(f"C02/{modn}:{cn}/frame:property-getters-do-not-modify-self", not bad, detail=bad[:3])
        emit("C02/frame/conversion-methods-found", n_tp >= 15, detail=f"{n_tp} to_primitive methods")


# ---------------------------------------------------------------------------------------------
# (d) DIMSE layer: an undecodable P-DATA payload does not raise inside the DT-2 / AR-6 action
# ---------------------------------------------------------------------------------------------
class ReceivePrimitiveTask(Task):
    name = "DIMSEServiceProvider.receive_primitive/any-payload"
    functions = [RECVP]

    def config(self, repo):
        c = Config()
        c.ob_prefix = "C02/"
        c.summaries["pynetdicom.events:trigger"] = lambda I, a, k: None
        c.ext_models["io.BytesIO"] = lambda I, a, k: Env("BytesIO")
        c.ext_models["threading.Thread"] = lambda I, a, k: Env("thread")

        def env_call(I, env, method, args, kw):
            g = I.ghost
            if env.path == "dimse.message" and method == "decode_msg":
                k = I.choose(3, "decode_msg")
                g["decode"] = ["incomplete", "complete", "raises"][k]
                if k == 2:
                    raise PyRaise(ExcVal(["IndexError", "KeyError", "AttributeError", "Exception"][I.choose(4, "which")], ("malformed fragment",)))
                return k == 1
            if env.path == "dimse.message" and method == "message_to_primitive":
                if I.choose(2, "message_to_primitive") == 1:
                    g["convert"] = "raises"
                    raise PyRaise(ExcVal("Exception", ("invalid message",)))
                p = Env("dimse_primitive", cls=I.repo.cls("pynetdicom.dimse_primitives:" + ["C_ECHO", "C_CANCEL", "N_EVENT_REPORT"][I.choose(3, "primitive type")]))
                p.attrs["MessageIDBeingRespondedTo"] = I.input("int", "MessageIDBeingRespondedTo")
                p.attrs["is_valid_request"] = I.input("bool", "is_valid_request")
                return p
            if env.path == "dimse.msg_queue" and method == "put":
                I.trace.append(Ev("msg_queue.put", tuple(args)))
                return None
            if env.path == "dimse.dul.event_queue" and method == "put":
                I.trace.append(Ev("event", tuple(args)))
                return None
            if env.path == "thread" and method == "start":
                I.trace.append(Ev("thread.start"))
                return None
            return NotImplemented
        c.env_call = env_call
        return c

    def body(self, I):
        from pyvc.symcoll import AbsMap
        P = f"C02/{RECVP}"
        g = I.ghost
        me = Env("dimse", cls=I.repo.cls("pynetdicom.dimse:DIMSEServiceProvider"))
        m = Env("dimse.message")
        m.attrs["context_id"] = I.input("int", "context_id")
        m.truth = True
        me.attrs["message"] = m if I.choose(2, "a message is being assembled") == 0 else None
        if me.attrs["message"] is None:
            I.cfg.summaries["pynetdicom.dimse_messages:DIMSEMessage"] = lambda I_, a, k: m
        me.attrs["assoc"] = Env("dimse.assoc")
        me.attrs["dul"] = Env("dimse.dul")
        me.attrs["cancel_req"] = AbsMap(I, "cancel_req")
        kind, val = I.run_function(I.repo.func(RECVP), [me, Env("pdata")])
        I.ob(f"{P}/never-raises-whatever-the-P-DATA-payload-is", kind == "return", detail=f"{kind}:{val!r} (decode_msg {g.get('decode')})")
        if kind != "return":
            return
        evs = [e.args[0] for e in I.trace if e.name == "event"]
        puts = [e for e in I.trace if e.name == "msg_queue.put"]
        if g.get("decode") == "raises" or g.get("convert") == "raises":
            I.ob(f"{P}/an-undecodable-message-is-reported-as-Evt19-and-nothing-is-delivered", evs == ["Evt19"] and not puts, detail=repr(evs))
        else:
            I.ob(f"{P}/no-event-for-a-decodable-fragment", evs == [], detail=repr(evs))


# ---------------------------------------------------------------------------------------------
# utils.decode_bytes: AE titles / UIDs taken from received bytes
# ---------------------------------------------------------------------------------------------
DECB = "pynetdicom.utils:decode_bytes"
ASCII_NAMES = ("ascii", "646", "us-ascii")


class BytesV:
    """abstract bytes value: all that matters here is whether every byte is < 128 (a Boolean, decided where the code asks)"""

    def __init__(self, I, name, ascii_):
        self.name, self.ascii = name, ascii_

    def truth(self, I):
        return I.fresh("bool", f"{self.name} is not empty")

    def as_symseq(self, I):
        n = I.fresh("int", f"len({self.name})").e
        I.assume(n >= 0)
        by = z3.Function(f"byte({self.name})", z3.IntSort(), z3.IntSort())
        return SymSeq(self.name, n, lambda i: SV(by(i), "int"))

    def sym_method(self, I, name, args, kw):
        if name == "decode":
            codec = args[0] if args else kw.get("encoding", "utf-8")
            errors = args[1] if len(args) > 1 else kw.get("errors", "strict")
            if errors != "strict" or not isinstance(codec, str):
                raise Unsupported("bytes.decode with an error handler other than strict")
            I.trace.append(Ev("decode", (self, codec)))
            if codec in ASCII_NAMES:
                if I.branch(self.ascii if isinstance(self.ascii, (bool, SV)) else SV(self.ascii, "bool"), "every byte is ASCII"):
                    return StrV(I, f"ascii({self.name})", True)
                raise PyRaise(ExcVal("UnicodeDecodeError", ("ascii", "ordinal not in range(128)")))
            # any other codec (a configured fallback): fails, or gives some text - ASCII or not
            if I.choose(2, f"decoding with {codec}") == 0:
                raise PyRaise(ExcVal("UnicodeDecodeError", (codec, "invalid byte")))
            return StrV(I, f"{codec}({self.name})", I.fresh("bool", "decoded text is ASCII"))
        return NotImplemented


class StrV:
    def __init__(self, I, name, ascii_):
        self.name, self.ascii = name, ascii_

    def sym_kind(self):
        return "str"

    def sym_method(self, I, name, args, kw):
        if name == "encode":
            codec = args[0] if args else kw.get("encoding", "utf-8")
            errors = args[1] if len(args) > 1 else kw.get("errors", "strict")
            if codec not in ASCII_NAMES:
                raise Unsupported("str.encode with a codec other than ASCII")
            if errors == "ignore":
                return BytesV(I, f"ascii-part({self.name})", True)       # characters outside ASCII are dropped
            if I.branch(self.ascii if isinstance(self.ascii, (bool, SV)) else SV(self.ascii, "bool"), "text is ASCII"):
                return BytesV(I, f"bytes({self.name})", True)
            raise PyRaise(ExcVal("UnicodeEncodeError", ("ascii", "ordinal not in range(128)")))
        return NotImplemented


class DecodeBytesTask(Task):
    """decode_bytes is total on arbitrary received bytes: it returns ASCII text or raises ValueError - nothing else escapes,
    whatever fallback codecs are configured - and the recursion ends after one step (its argument is ASCII by then)."""
    name = "utils.decode_bytes"
    functions = [DECB]
    CONFIGS = [("ascii", "utf8"), ("utf8", "shift_jis", "646"), (), ("ascii",), ("latin-1",)]

    def config(self, repo):
        c = Config()
        c.ob_prefix = "C02/"
        c.module_consts[("pynetdicom._config", "CODECS")] = lambda I: I.ghost["codecs"]
        return c

    def body(self, I):
        P = f"C02/{DECB}"
        g = I.ghost
        g["codecs"] = self.CONFIGS[I.choose(len(self.CONFIGS), "configured codecs")]
        b = BytesV(I, "received", I.fresh("bool", "received bytes are ASCII"))
        orig = I.call_func
        depth = {"n": 0, "max": 0, "args": []}
        fi_dec = I.repo.func(DECB)

        def spy(fi, args, kwargs, closure=None):
            if fi is fi_dec:
                depth["n"] += 1
                depth["max"] = max(depth["max"], depth["n"])
                depth["args"].append(args[0])
                try:
                    return orig(fi, args, kwargs, closure)
                finally:
                    depth["n"] -= 1
            return orig(fi, args, kwargs, closure)
        I.call_func = spy
        try:
            kind, val = I.run_function(fi_dec, [b])
        finally:
            I.call_func = orig
        if kind == "return":
            I.ob(f"{P}/returns-ASCII-text", isinstance(val, StrV) and val.ascii is True, detail=repr(getattr(val, "name", val)))
        else:
            I.ob(f"{P}/only-ValueError-escapes-whatever-the-bytes-and-the-configured-codecs", val.cls_name == "ValueError", detail=repr(val))
        I.ob(f"{P}/the-recursion-ends-after-one-step:its-argument-is-ASCII",
             depth["max"] <= 2 and all(isinstance(a, BytesV) and a.ascii is True for a in depth["args"][1:]),
             detail=f"depth {depth['max']}")


def tasks(tier):
    ts = [recvpath.ReadPduTask(), recvpath.DecodeTask(), recvpath.DecodeFailTask(), DecodeBytesTask()]
    ts += [GenItemsTask(k) for k in GEN]
    ts += [ConversionFrameTask(), ReceivePrimitiveTask()]
    ts += [StabilityTask(c) for c in FIXED]
    return ts


def replay(rec):
    from pyvc.replay import run_replay
    return run_replay("C02", rec)


LEVEL_TEXT = ("contract-based, partial: total classification of _read_pdu_data for every byte stream and every socket behaviour; loop "
              "variants of all four item-splitting generators on arbitrary bytes (the decoder cannot hang); a PDU reaches the state "
              "machine only if it converts to a primitive, conversions are frame-checked pure, and an undecodable DIMSE payload becomes "
              "Evt19; stability decode(encode(decode(b))) proved for the fixed-layout PDUs only. utils.decode_bytes: total, ASCII text or ValueError, recursion depth <= 2.")
LEVEL_NOTE = "level 'other': stability for A-ASSOCIATE-RQ/AC/P-DATA values decoded from arbitrary bytes is not proved (see not_decided)."
TECHNIQUE = ("deductive: effect-trace contracts on _read_pdu_data/_decode_pdu/receive_primitive, loop variants on the item generators over "
             "symbolic byte sequences (AST->VC, z3 Seq/LIA), exhaustive AST frame scan of the conversion methods")
DESIGN_REF = "DESIGN.md section 3 (C02) and section 10"


# ---------------------------------------------------------------------------------------------
# (c) stability of the fixed-layout PDUs: whatever bytes decode() accepted, the value re-encodes and re-decodes to itself
# ---------------------------------------------------------------------------------------------
FIXED = ["A_ASSOCIATE_RJ", "A_RELEASE_RQ", "A_RELEASE_RP", "A_ABORT_RQ"]


class StabilityTask(Task):
    def __init__(self, cls):
        self.cls = cls
        self.name = f"stability/{cls}"
        self.functions = [f"{PDU}:PDU.decode", f"{PDU}:PDU.encode", f"{PDU}:{cls}._decoders.fget", f"{PDU}:{cls}._encoders.fget"]

    def config(self, repo):
        c = Config()
        c.ob_prefix = "C02/"
        return c

    def body(self, I):
        P = f"C02/{PDU}:{self.cls}"
        ci = I.repo.cls(f"{PDU}:{self.cls}")
        b = I.input("bytes", "received")
        pdu = I.instantiate(ci, [], {})
        kind, val = I.run_function(I.repo.func(f"{PDU}:PDU.decode"), [pdu, b])
        if kind == "raise":
            # rejected input (classified as Evt19 by the caller): only the decoder's own error kinds
            I.ob(f"{P}/decode-of-arbitrary-bytes-raises-only-struct.error-or-AssertionError",
                 val.cls_name in ("struct.error", "AssertionError", "IndexError", "ValueError"), detail=repr(val))
            return
        k2, enc = I.run_function(I.repo.func(f"{PDU}:PDU.encode"), [pdu])
        I.ob(f"{P}/a-decoded-value-can-be-encoded", k2 == "return", detail=f"{k2}:{enc!r}")
        if k2 != "return":
            return
        pdu2 = I.instantiate(ci, [], {})
        k3, _ = I.run_function(I.repo.func(f"{PDU}:PDU.decode"), [pdu2, enc])
        I.ob(f"{P}/the-re-encoded-value-decodes-again", k3 == "return", detail=f"{k3}")
        if k3 != "return":
            return
        same = I.eq(pdu, pdu2)
        I.ob(f"{P}/decode(encode(decode(b)))-equals-decode(b)", same if not isinstance(same, bool) else z3.BoolVal(same))

"""ASCII strings of the PDU codec as layout values: a string is its sequence of code points (the same
algebra as bytes: `s.encode('ascii')` is the identity on the layout, given every code point < 128)."""
from __future__ import annotations

import ast

import z3

from .values import SV, Unsupported, BYTES
from .layout import LB, Raw, Blob, Fill, _zi, _conc


class AStr:
    """symbolic (or partly symbolic) ASCII string"""

    def __init__(self, lb: LB, is_uid=False):
        self.lb = lb
        self.is_uid = is_uid

    @staticmethod
    def of(I, v):
        if isinstance(v, AStr):
            return v
        if isinstance(v, str):
            try:
                return AStr(LB([Raw(v.encode("ascii"))]))
            except UnicodeEncodeError:
                raise Unsupported("non-ASCII concrete string in the codec")
        raise Unsupported(f"not a string: {type(v).__name__}")

    def sym_kind(self):
        return "astr"

    def sym_len(self, I):
        return self.lb.sym_len(I)

    def truth(self, I):
        return self.lb.truth(I)

    def to_z3(self):
        return self.lb.to_z3()

    def sym_eq(self, I, other):
        if isinstance(other, (AStr, str)):
            return self.lb.sym_eq(I, AStr.of(I, other).lb)
        return False

    def sym_binop(self, I, op, other, reflected):
        if isinstance(op, ast.Add) and isinstance(other, (AStr, str)):
            o = AStr.of(I, other)
            return AStr(o.lb.concat(I, self.lb)) if reflected else AStr(self.lb.concat(I, o.lb))
        return NotImplemented

    def sym_getattr(self, I, name):
        if name == "is_valid":
            return I.fresh("bool", "uid.is_valid")
        if name in ("is_private", "is_implicit_VR", "is_little_endian", "is_deflated", "is_compressed", "name", "keyword"):
            return I.opaque(f"uid.{name}")
        return NotImplemented

    def sym_method(self, I, name, args, kw):
        if name == "encode":
            enc = args[0] if args else kw.get("encoding", "utf-8")
            if enc not in ("ascii", "utf-8", "utf8", "us-ascii"):
                raise Unsupported(f"encode({enc})")
            I.used_models.add("str.encode('ascii') on an ASCII string: identity on code points")
            return self.lb
        if name == "ljust":
            n = args[0]
            ln = _zi(self.lb.total())
            pad = z3.If(_zi(n) - ln > 0, _zi(n) - ln, 0)
            fillch = args[1] if len(args) > 1 else " "
            return AStr(self.lb.concat(I, LB([Fill(pad, ord(fillch))])))
        if name == "strip" and (not args or args[0] == " "):
            # strip() / strip(" "): padding of spaces is dropped; for a value whose ends are known not to be white space both
            # forms give the same result (the difference - tabs, line feeds - only exists for values of unknown content, which
            # are over-approximated below in either case)
            segs = list(self.lb.segs)
            while segs and isinstance(segs[-1], Fill) and segs[-1].value == 32:
                segs.pop()
            while segs and isinstance(segs[0], Fill) and segs[0].value == 32:
                segs.pop(0)
            if not segs:
                return AStr(LB())
            ok_first = isinstance(segs[0], Raw) and segs[0].data[:1] not in (b" ", b"\t", b"\n", b"\r", b"\x0b", b"\x0c") \
                or isinstance(segs[0], Blob) and segs[0].trimmed
            ok_last = isinstance(segs[-1], Raw) and segs[-1].data[-1:] not in (b" ", b"\t", b"\n", b"\r", b"\x0b", b"\x0c") \
                or isinstance(segs[-1], Blob) and segs[-1].trimmed
            if ok_first and ok_last:
                return AStr(LB(segs))
            # ends not known to be non-space: over-approximate by an arbitrary string that is no longer than the input
            r = I.fresh("bytes", "stripped").e
            I.assume(z3.Length(r) <= _zi(self.lb.total()))
            return AStr(LB([Blob(r)]))
        if name == "isascii":
            return True
        if name in ("startswith", "endswith", "replace", "split", "lower", "upper"):
            raise Unsupported(f"str.{name} on symbolic string")
        return NotImplemented

    def sym_str(self, I):
        return self

    def __repr__(self):
        return f"AStr({self.lb!r})"


def decode_ascii(I, lb: LB):
    """bytes.decode('ascii') for bytes whose elements are all < 128 (precondition checked by the caller)"""
    return AStr(lb)

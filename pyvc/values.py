"""Value domain of the symbolic interpreter (DESIGN §1.1-4)."""
from __future__ import annotations

import z3

BV8 = z3.IntSort()          # bytes are sequences of mathematical integers constrained to 0..255 where read
BYTES = z3.SeqSort(z3.IntSort())


class Unsupported(Exception):
    """Construct outside the supported subset -> obligation undecided (exit 2), never 'passed'."""


class PathEnd(Exception):
    """Path terminated by the engine (inductive step finished, or assumption made the path dead)."""


class SV:
    """Symbolic scalar: z3 expression + kind in {'int','bool','real','str','bytes'}."""
    __slots__ = ("e", "k")

    def __init__(self, e, k):
        self.e = e
        self.k = k

    def __repr__(self):
        return f"SV<{self.k}:{self.e}>"


class ByteArr:
    """A mutable bytearray; content is bytes | SV('bytes') | layout value."""
    __slots__ = ("v",)

    def __init__(self, v=b""):
        self.v = v

    def __repr__(self):
        return f"ByteArr({self.v!r})"


class Obj:
    """Instance of a repository class (heap record)."""
    _n = 0

    def __init__(self, cls, fields=None, tag=None):
        self.cls = cls
        self.fields = fields if fields is not None else {}
        self.tag = tag
        Obj._n += 1
        self.id = Obj._n

    def __repr__(self):
        return f"<Obj {self.cls.name}#{self.id}{' ' + self.tag if self.tag else ''}>"


class Env:
    """Environment / opaque object, identified by a dotted path.  Attribute reads are memoised;
    method calls append to the effect trace."""

    def __init__(self, path, cls=None, nonnull=True, kind=None):
        self.path = path
        self.attrs = {}
        self.cls = cls            # optional ClassInfo or external class name (for isinstance)
        self.nonnull = nonnull    # False: may be None (symbolic)
        self.isnone = None        # memoised z3 Bool when nonnull is False
        self.truth = None         # memoised z3 Bool / concrete bool
        self.kind = kind          # free tag for models
        self.data = {}            # model-private data

    def __repr__(self):
        return f"<Env {self.path}>"


class FuncRef:
    def __init__(self, fi, self_val=None, closure=None, defcls=None):
        self.fi = fi
        self.self_val = self_val
        self.closure = closure
        self.defcls = defcls

    def __repr__(self):
        return f"<FuncRef {self.fi.qualname}{' bound' if self.self_val is not None else ''}>"


class ClassRef:
    def __init__(self, ci):
        self.ci = ci

    def __eq__(self, other):
        return isinstance(other, ClassRef) and other.ci is self.ci

    def __hash__(self):
        return hash(id(self.ci))

    def __repr__(self):
        return f"<ClassRef {self.ci.qualname}>"


class ModRef:
    def __init__(self, name):
        self.name = name

    def __repr__(self):
        return f"<ModRef {self.name}>"


class Ext:
    """External (library) callable or class, by dotted name."""

    def __init__(self, name, self_val=None):
        self.name = name
        self.self_val = self_val

    def __repr__(self):
        return f"<Ext {self.name}>"


class BoundBuiltin:
    """Method of a builtin value, e.g. list.append bound to a list."""

    def __init__(self, recv, name):
        self.recv = recv
        self.name = name

    def __repr__(self):
        return f"<BoundBuiltin {type(self.recv).__name__}.{self.name}>"


class LambdaRef:
    def __init__(self, node, frame):
        self.node = node
        self.frame = frame


class SuperRef:
    def __init__(self, obj, after_cls):
        self.obj = obj
        self.after_cls = after_cls


class GenObj:
    """A running interpreted generator."""

    def __init__(self, pygen, name):
        self.pygen = pygen
        self.name = name
        self.done = False

    def __repr__(self):
        return f"<GenObj {self.name}>"


class ExcVal:
    """An exception instance: class name (builtin or repository), args, optional ClassInfo."""

    def __init__(self, cls_name, args=(), ci=None):
        self.cls_name = cls_name
        self.args = tuple(args)
        self.ci = ci
        self.fields = {}

    def __repr__(self):
        return f"<Exc {self.cls_name}{self.args!r}>"


class PyRaise(Exception):
    def __init__(self, exc: ExcVal):
        super().__init__(repr(exc))
        self.exc = exc


class ReturnSig(Exception):
    def __init__(self, value):
        self.value = value


class BreakSig(Exception):
    pass


class ContinueSig(Exception):
    pass


class SymSeq:
    """Sequence of symbolic length: len (z3 Int >= 0) and an element function index -> value."""

    def __init__(self, name, length, elem, kind="list", contains=None):
        self.name = name
        self.length = length      # z3 Int
        self.elem = elem          # callable(z3 Int index) -> value
        self.kind = kind
        self.contains = contains  # optional callable(I, item) -> z3 Bool (membership predicate)

    def sym_method(self, I, name, args, kw):
        if name == "extend" and isinstance(args[0], SymSeq):
            # in-place extension of a sequence that is empty on this path: it becomes the other sequence
            if not I.valid(self.length == 0):
                raise Unsupported("extend of a possibly non-empty symbolic sequence")
            o = args[0]
            self.name, self.length, self.elem, self.kind, self.contains = f"{self.name}+{o.name}", o.length, o.elem, o.kind, o.contains
            return None
        if name == "extend" and isinstance(args[0], (list, tuple)) and len(args[0]) == 0:
            return None
        return NotImplemented

    def sym_contains(self, I, item):
        if self.contains is None:
            # generic membership: some index holds an element equal to the item
            import z3
            I._fresh_n += 1
            j = z3.Int(f"j!{I._fresh_n}")
            e = I.eq(self.elem(j), item)
            if isinstance(e, bool):
                e = z3.BoolVal(e)
            return z3.Exists([j], z3.And(j >= 0, j < self.length, e))
        return self.contains(I, item)


class CondList:
    """list of (element, z3 Bool selected?) built by a filtering comprehension over a concrete-length iterable"""

    def __init__(self, items):
        self.items = items

    def truth(self, I):
        import z3
        return z3.Or(*[t for _x, t in self.items]) if self.items else False

    def sym_len(self, I):
        import z3
        return SV(z3.Sum(*[z3.If(t, 1, 0) for _x, t in self.items]) if self.items else z3.IntVal(0), "int")


class Ev:
    """Effect-trace event."""
    __slots__ = ("name", "args", "kwargs", "ret")

    def __init__(self, name, args=(), kwargs=None, ret=None):
        self.name = name
        self.args = tuple(args)
        self.kwargs = kwargs or {}
        self.ret = ret

    def __repr__(self):
        return f"Ev({self.name}, {self.args!r}{', ' + repr(self.kwargs) if self.kwargs else ''})"


# ---------------------------------------------------------------------------------------------
# Exception hierarchy (builtin part)
# ---------------------------------------------------------------------------------------------
BUILTIN_EXC_PARENT = {
    "BaseException": None,
    "Exception": "BaseException",
    "KeyboardInterrupt": "BaseException",
    "SystemExit": "BaseException",
    "GeneratorExit": "BaseException",
    "ArithmeticError": "Exception",
    "ZeroDivisionError": "ArithmeticError",
    "OverflowError": "ArithmeticError",
    "AssertionError": "Exception",
    "Warning": "Exception",
    "DeprecationWarning": "Warning",
    "UserWarning": "Warning",
    "RuntimeWarning": "Warning",
    "FutureWarning": "Warning",
    "AttributeError": "Exception",
    "LookupError": "Exception",
    "IndexError": "LookupError",
    "KeyError": "LookupError",
    "NameError": "Exception",
    "UnboundLocalError": "NameError",
    "NotImplementedError": "RuntimeError",
    "RuntimeError": "Exception",
    "RecursionError": "RuntimeError",
    "StopIteration": "Exception",
    "TypeError": "Exception",
    "ValueError": "Exception",
    "UnicodeError": "ValueError",
    "UnicodeDecodeError": "UnicodeError",
    "UnicodeEncodeError": "UnicodeError",
    "OSError": "Exception",
    "IOError": "Exception",            # alias of OSError; see exc_isinstance
    "ConnectionError": "OSError",
    "ConnectionResetError": "ConnectionError",
    "BrokenPipeError": "ConnectionError",
    "TimeoutError": "OSError",
    "FileNotFoundError": "OSError",
    "PermissionError": "OSError",
    "socket.error": "Exception",       # alias of OSError
    "socket.timeout": "OSError",       # alias of TimeoutError
    "struct.error": "Exception",
    "queue.Empty": "Exception",
    "queue.Full": "Exception",
    "ssl.SSLError": "OSError",
    "NotImplemented": "Exception",
    "InvalidDicomError": "Exception",
    "sqlalchemy.exc.SQLAlchemyError": "Exception",
    "zlib.error": "Exception",
}
_ALIASES = {"IOError": "OSError", "socket.error": "OSError", "socket.timeout": "TimeoutError",
            "select.error": "OSError", "EnvironmentError": "OSError"}


def canon_exc(name):
    return _ALIASES.get(name, name)


def builtin_exc_ancestors(name):
    name = canon_exc(name)
    out = []
    while name is not None:
        out.append(name)
        name = BUILTIN_EXC_PARENT.get(name, "Exception" if name not in ("BaseException",) else None)
        if name in out:
            break
    return out


class Volatile:
    """value of an environment attribute that may differ at every read"""

    def __init__(self, value):
        self.value = value


class StreamV:
    """adversarial stream (a generator owned by the environment / summarised callee): `for` loops over it are verified
    inductively through Interp.for_stream; next_elem(I, index) produces an arbitrary next element"""

    def __init__(self, name, next_elem):
        self.name, self.next_elem = name, next_elem

    def truth(self, I):
        return True

    def sym_for(self, I, s, fr, spec):
        return I.for_stream(s, fr, spec, self.next_elem, self.name)

"""Task = one unit of verification work for a property (one function under contract, one table,
one lemma).  Tasks run in worker processes; they return plain dicts."""
from __future__ import annotations

import time
import traceback

from .repo import Repo, ExtractionError
from .interp import Interp, Config
from .values import Unsupported, PathEnd, PyRaise


class Task:
    """Deductive task: symbolic execution of real functions against a sidecar contract."""
    name = "task"
    functions: list[str] = []     # qualified names of the functions under contract (for the evidence)
    backend = "z3"

    def config(self, repo: Repo) -> Config:
        return Config()

    def body(self, I: Interp):
        """Runs once per path: build symbolic inputs, call I.run_function, state obligations (I.ob)."""
        raise NotImplementedError

    shard = False      # True: the driver may split the path tree of this task over several worker processes
                       # (body must not keep state across paths)

    def run(self, repo: Repo, start=None, budget=None):
        t0 = time.time()
        out = {"task": self.name, "records": [], "functions": [], "models": [], "summaries": [],
               "inlined": [], "paths": 0, "solver_ms": 0.0, "queries": 0, "error": None, "undecided": None,
               "leftover": []}
        try:
            for q in self.functions:
                out["functions"].append(repo.func(q).describe() if ":" in q and not q.endswith("!class")
                                        else {"function": q})
            I = Interp(repo, self.config(repo))
            I.explore(self.body, start=start, budget=budget)
            out["leftover"] = I.leftover
            if I.path_errors:
                out["undecided"] = "; ".join(I.path_errors[:3])
            out["records"] = [r.to_json() for r in I.records]
            out["models"] = sorted(I.used_models)
            out["summaries"] = sorted(I.used_summaries)
            out["inlined"] = sorted(q for q in I.used_functions if q not in self.functions)
            out["paths"] = I.paths
            out["solver_ms"] = I.solver_ms
            out["queries"] = I.queries
            out["recheck"] = dict(I.recheck)
        except (Unsupported, ExtractionError) as e:
            out["undecided"] = f"{type(e).__name__}: {e}"
            try:
                out["records"] = [r.to_json() for r in I.records]
            except Exception:
                pass
        except PyRaise as e:
            out["undecided"] = f"uncaught interpreted exception outside run_function: {e.exc!r}"
        except Exception:
            out["error"] = traceback.format_exc()
        out["wall_s"] = time.time() - t0
        return out


class FiniteTask:
    """Exhaustive check of a finite domain read from the AST (back end 'exhaustive')."""
    name = "finite"
    functions: list[str] = []
    backend = "exhaustive"

    def check(self, repo: Repo, emit):
        """call emit(oid, ok: bool, detail=None, model=None) for each obligation"""
        raise NotImplementedError

    def run(self, repo: Repo):
        t0 = time.time()
        out = {"task": self.name, "records": [], "functions": [], "models": [], "summaries": [],
               "inlined": [], "paths": 0, "solver_ms": 0.0, "queries": 0, "error": None, "undecided": None}
        recs = out["records"]

        def emit(oid, ok, detail=None, model=None, backend=None):
            recs.append({"id": oid, "status": "discharged" if ok else "failed", "backend": backend or self.backend,
                         "ms": 0.0, "decisions": [], "model": model or {}, "detail": detail, "formula": None})
        try:
            for q in self.functions:
                try:
                    out["functions"].append(repo.func(q).describe())
                except Exception:
                    out["functions"].append({"function": q})
            self.check(repo, emit)
        except (Unsupported, ExtractionError) as e:
            out["undecided"] = f"{type(e).__name__}: {e}"
        except Exception:
            out["error"] = traceback.format_exc()
        out["wall_s"] = time.time() - t0
        return out


class NativeBoundedTask(FiniteTask):
    """bounded stand-in executed NATIVELY (CPython, real library code and real third-party libraries): the property's replay
    harness is run with the pseudo-obligation `<prop>/bounded-native:<what>`; labelled bounded, never counted as proved.  Used
    where the proof rests on an assumed library contract (pydicom codec, zlib) that no contract here can reach."""
    backend = "bounded-native"

    def __init__(self, prop, what, functions=(), timeout=300):
        self.prop, self.what = prop, what
        self.name = f"bounded-native/{what}"
        self.functions = list(functions)
        self.timeout = timeout

    def check(self, repo, emit):
        from .replay import run_replay
        oid = f"{self.prop}/bounded-native:{self.what}"
        r = run_replay(self.prop, {"id": oid}, timeout=self.timeout)
        if r.get("reproduced") is False:
            emit(oid, True, detail=r.get("note"))
        elif r.get("reproduced") is True:
            emit(oid, False, detail={k: v for k, v in r.items() if k != "reproduced"}, model=r.get("input"))
        else:
            raise Unsupported(f"native bounded check gave no verdict: {r.get('note')}")

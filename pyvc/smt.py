"""Solver helpers: literals, model values, second-opinion back ends (cvc5 / z3 CLI on SMT-LIB2)."""
from __future__ import annotations

import os
import subprocess
import tempfile

import z3

from .values import BV8, BYTES

CVC5 = "/usr/bin/cvc5"
Z3CLI = "/usr/bin/z3"
Z3NEW = "z3-new"


def bytes_lit(b: bytes):
    if len(b) == 0:
        return z3.Empty(BYTES)
    units = [z3.Unit(z3.IntVal(x)) for x in b]
    if len(units) == 1:
        return units[0]
    return z3.Concat(units)


def py_of(v):
    """z3 model value -> JSON-able Python value."""
    try:
        if z3.is_int_value(v):
            return v.as_long()
        if z3.is_true(v):
            return True
        if z3.is_false(v):
            return False
        if z3.is_rational_value(v):
            return float(v.numerator_as_long()) / float(v.denominator_as_long())
        if z3.is_string_value(v):
            return v.as_string()
        if z3.is_bv_value(v):
            return v.as_long()
        if z3.is_seq(v):
            # sequence of bitvectors -> list of ints
            out = []
            s = z3.simplify(v)
            def walk(e):
                if e.decl().kind() == z3.Z3_OP_SEQ_UNIT:
                    out.append(z3.simplify(e.arg(0)).as_long())
                elif e.decl().kind() == z3.Z3_OP_SEQ_CONCAT:
                    for c in e.children():
                        walk(c)
                elif e.decl().kind() == z3.Z3_OP_SEQ_EMPTY:
                    pass
                else:
                    raise ValueError
            walk(s)
            return {"bytes": out}
    except Exception:
        pass
    return str(v)


def has_strings(e, _seen=None) -> bool:
    """does the term mention the String sort / regular expressions (z3's in-process string solver does not
    honour time limits reliably, so such goals are put to the external solvers)"""
    seen = set() if _seen is None else _seen
    stack = [e]
    while stack:
        t = stack.pop()
        if t.get_id() in seen:
            continue
        seen.add(t.get_id())
        try:
            srt = t.sort()
            if srt.kind() == z3.Z3_RE_SORT or (srt.kind() == z3.Z3_SEQ_SORT and srt.is_string()):
                return True
        except Exception:
            pass
        stack.extend(t.children())
    return False


def second_opinion(solver: z3.Solver, inputs, budget_s=20):
    """The assertion stack (pc and negated goal) is exported as SMT-LIB2 and put to cvc5, z3-new (5.1 CLI) and
    the Debian z3 CLI, each under a hard wall-clock limit.  Returns (status, backend, model)."""
    import shutil
    try:
        text = solver.to_smt2()
    except Exception:
        return "undecided", "z3:unknown", None
    with tempfile.NamedTemporaryFile("w", suffix=".smt2", delete=False, dir=os.environ.get("VERIF_SCRATCH")) as fh:
        fh.write(text)
        path = fh.name
    tried = []
    try:
        for name, cmd in (("cvc5", [CVC5, "--strings-exp", f"--tlimit={budget_s * 1000}", path]),
                          ("z3-new-cli", [Z3NEW, f"-T:{budget_s}", path]),
                          ("z3-cli", [Z3CLI, f"-T:{budget_s}", path])):
            exe = cmd[0] if os.path.exists(cmd[0]) else shutil.which(cmd[0])
            if not exe:
                continue
            cmd[0] = exe
            try:
                out = subprocess.run(cmd, capture_output=True, text=True, timeout=budget_s + 10).stdout.strip().splitlines()
            except Exception:
                tried.append(name + ":timeout")
                continue
            ans = out[0].strip() if out else ""
            tried.append(f"{name}:{ans or 'none'}")
            if ans == "unsat":
                return "discharged", name, None
            if ans == "sat":
                return "failed", name, {}
        return "undecided", "+".join(tried) or "no-solver", None
    finally:
        try:
            os.unlink(path)
        except OSError:
            pass


def versions():
    out = {"z3-api": z3.get_version_string()}
    for name, cmd in (("cvc5", [CVC5, "--version"]), ("z3-cli", [Z3CLI, "--version"]), ("z3-new-cli", [Z3NEW, "--version"])):
        try:
            out[name] = subprocess.run(cmd, capture_output=True, text=True, timeout=10).stdout.splitlines()[0]
        except Exception:
            out[name] = "absent"
    return out


def recheck_unsat(solver: z3.Solver, budget_s=10):
    """thorough tier: an obligation z3 discharged (unsat) is put to cvc5 as SMT-LIB2 text.
    Returns 'agree' (unsat), 'unknown' (timeout / unsupported) or 'DISAGREE' (cvc5 says sat)."""
    import shutil
    exe = CVC5 if os.path.exists(CVC5) else shutil.which("cvc5")
    if not exe:
        return "unknown"
    try:
        text = solver.to_smt2()
    except Exception:
        return "unknown"
    with tempfile.NamedTemporaryFile("w", suffix=".smt2", delete=False, dir=os.environ.get("VERIF_SCRATCH")) as fh:
        fh.write(text)
        path = fh.name
    try:
        out = subprocess.run([exe, "--strings-exp", f"--tlimit={budget_s * 1000}", path], capture_output=True, text=True,
                             timeout=budget_s + 5).stdout.strip().splitlines()
        ans = out[0].strip() if out else ""
        return {"unsat": "agree", "sat": "DISAGREE"}.get(ans, "unknown")
    except Exception:
        return "unknown"
    finally:
        try:
            os.unlink(path)
        except OSError:
            pass

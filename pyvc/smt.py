"""Solver helpers: literals, model values, second-opinion back ends (cvc5 / z3 CLI on SMT-LIB2)."""
from __future__ import annotations

import os
import subprocess
import tempfile

import z3

from .values import BV8, BYTES

CVC5 = "/usr/bin/cvc5"
Z3CLI = "/usr/bin/z3"


def bytes_lit(b: bytes):
    if len(b) == 0:
        return z3.Empty(BYTES)
    units = [z3.Unit(z3.IntVal(x)) for x in b]
    if len(units) == 1:
        return units[0]
    return z3.Concat(units)


def py_of(v):
    """z3 model value -> JSON-able Python value."""
    try:
        if z3.is_int_value(v):
            return v.as_long()
        if z3.is_true(v):
            return True
        if z3.is_false(v):
            return False
        if z3.is_rational_value(v):
            return float(v.numerator_as_long()) / float(v.denominator_as_long())
        if z3.is_string_value(v):
            return v.as_string()
        if z3.is_bv_value(v):
            return v.as_long()
        if z3.is_seq(v):
            # sequence of bitvectors -> list of ints
            out = []
            s = z3.simplify(v)
            def walk(e):
                if e.decl().kind() == z3.Z3_OP_SEQ_UNIT:
                    out.append(z3.simplify(e.arg(0)).as_long())
                elif e.decl().kind() == z3.Z3_OP_SEQ_CONCAT:
                    for c in e.children():
                        walk(c)
                elif e.decl().kind() == z3.Z3_OP_SEQ_EMPTY:
                    pass
                else:
                    raise ValueError
            walk(s)
            return {"bytes": out}
    except Exception:
        pass
    return str(v)


def second_opinion(solver: z3.Solver, inputs):
    """Called when z3 (API) answered unknown.  The assertion stack (pc and negated goal) is exported
    as SMT-LIB2 and put to cvc5 and the z3 CLI.  Returns (status, backend, model)."""
    try:
        text = solver.to_smt2()
    except Exception:
        return "undecided", "z3:unknown", None
    with tempfile.NamedTemporaryFile("w", suffix=".smt2", delete=False, dir=os.environ.get("VERIF_SCRATCH")) as fh:
        fh.write(text)
        path = fh.name
    try:
        for name, cmd in (("cvc5", [CVC5, "--strings-exp", "--tlimit=20000", path]),
                          ("z3-cli", [Z3CLI, "-T:20", path])):
            if not os.path.exists(cmd[0]):
                continue
            try:
                out = subprocess.run(cmd, capture_output=True, text=True, timeout=30).stdout.strip().splitlines()
            except Exception:
                continue
            ans = out[0].strip() if out else ""
            if ans == "unsat":
                return "discharged", name, None
            if ans == "sat":
                return "failed", name, {}
        return "undecided", "z3+cvc5:unknown", None
    finally:
        try:
            os.unlink(path)
        except OSError:
            pass


def versions():
    out = {"z3-api": z3.get_version_string()}
    for name, cmd in (("cvc5", [CVC5, "--version"]), ("z3-cli", [Z3CLI, "--version"])):
        try:
            out[name] = subprocess.run(cmd, capture_output=True, text=True, timeout=10).stdout.splitlines()[0]
        except Exception:
            out[name] = "absent"
    return out

"""Forward symbolic execution of the real function bodies (one path at a time, re-execution with a
decision prefix), calls by contract, loops by invariant, effect traces.  See DESIGN §1.1."""
from __future__ import annotations

import ast
import os
import time as _time

import z3

from .repo import Repo, FuncInfo, ClassInfo, ModuleInfo
from .values import *  # noqa
from .values import BYTES, BV8, builtin_exc_ancestors, canon_exc
from . import smt

RECHECK = os.environ.get("VERIF_TIER") == "thorough"
RECHECK_PER_ID = int(os.environ.get("VERIF_RECHECK_PER_ID", "6"))
_RC_SEEN = {}
UNROLL_LIMIT = 600
MAX_DEPTH = 60


TASK_BUDGET_S = int(os.environ.get("VERIF_TASK_BUDGET_S", "600"))       # per task and worker; 0 = unlimited


class BudgetExceeded(Unsupported):
    """the task ran out of its wall-clock budget: undecided (never a violation)"""


class LoopSpec:
    """Loop contract.  Override what is needed.

    invariant(I, frame) -> z3 Bool / bool      (evaluated on the *current* frame / heap / ghost)
    variant(I, frame)   -> z3 Int / int | None
    havoc(I, frame)     -> None                (extra havoc beyond the syntactically assigned locals)
    """
    modifies_locals = None     # None: all names assigned in the loop body (syntactic)

    def invariant(self, I, frame):
        return True

    def variant(self, I, frame):
        return None

    def havoc(self, I, frame):
        pass

    def on_exit(self, I, frame):
        pass

    def after_body(self, I, frame):
        """called at the end of the arbitrary iteration (after the invariant was re-established)"""
        pass


class Config:
    def __init__(self):
        self.summaries = {}       # qualname -> fn(I, args, kwargs) -> value   (callee contract)
        self.ext_models = {}      # dotted external name -> fn(I, args, kwargs)
        self.env_call = None      # fn(I, env, method, args, kwargs) -> value | NotImplemented
        self.env_attr = None      # fn(I, env, attr) -> value | NotImplemented
        self.env_setattr = None   # fn(I, env, attr, value) -> bool handled
        self.loop_specs = {}      # (qualname, ordinal) -> LoopSpec
        self.no_inline = set()    # qualnames that must not be inlined (need a summary)
        self.opaque_calls = set() # qualnames: call is traced, result opaque
        self.module_consts = {}   # (module, name) -> value override (e.g. _config flags symbolic)
        self.obj_getattr = None   # fn(I, obj, name) -> value | NotImplemented  (before normal lookup)
        self.truth_hook = None    # fn(I, value) -> bool|z3|NotImplemented
        self.log_names = {"LOGGER"}
        self.havoc_loops = False  # allow generic havoc schema for loops without a spec
        self.ext_opaque = ()      # dotted-name prefixes of external callables modelled as "traced, opaque result, may not raise"
        self.ob_prefix = ""       # property prefix of engine-generated obligations (loop contracts), e.g. "C03/"
        self.ext_consts = {}      # dotted name of an external constant (e.g. "zlib.MAX_WBITS") -> value


class Frame:
    def __init__(self, fi, module, closure=None):
        self.fi = fi
        self.module = module
        self.locals = {}
        self.closure = closure
        self.self_cls = None

    def lookup(self, name):
        f = self
        while f is not None:
            if name in f.locals:
                return True, f.locals[name]
            f = f.closure
        return False, None


class ObRecord:
    def __init__(self, oid, status, backend, ms, decisions, model=None, detail=None, formula=None):
        self.oid = oid
        self.status = status      # 'discharged' | 'failed' | 'undecided'
        self.backend = backend
        self.ms = ms
        self.decisions = list(decisions)
        self.model = model or {}
        self.detail = detail
        self.formula = formula

    def to_json(self):
        return {"id": self.oid, "status": self.status, "backend": self.backend, "ms": round(self.ms, 2),
                "decisions": self.decisions, "model": self.model, "detail": self.detail,
                "formula": self.formula}


class Interp:
    def __init__(self, repo: Repo, cfg: Config | None = None):
        self.repo = repo
        self.cfg = cfg or Config()
        self.records: list[ObRecord] = []
        self.used_functions = {}
        self.used_models = set()
        self.used_summaries = set()
        self.solver_ms = 0.0
        self.queries = 0
        self.paths = 0
        self._const_cache = {}
        self._module_ns = {}
        self._loop_ord_cache = {}
        self.path_errors = []
        self.recheck = {}
        self._rc_seen = {}
        self._fparts = {}
        self.sym_ext = {}
        self.begin_path([])

    # ------------------------------------------------------------------ path management
    deadline = None

    def begin_path(self, prefix):
        self.prefix = list(prefix)
        self.decisions = []
        self.new_prefixes = []
        self.pc = []
        self.solver = z3.Solver()
        self.solver.set("timeout", 20000)
        self.trace: list[Ev] = []
        self.ghost = {}
        self.inputs = {}          # name -> z3 const, reported in counterexample models
        self._fresh_n = 0
        self.depth = 0
        self.notes = []
        self.sym_ext = {}         # id(empty python list) -> (list, SymSeq) after `xs.extend(<symbolic sequence>)`
        self._pcs = [0, False]
        Obj._n = 0

    def explore(self, body, max_paths=20000, start=None, budget=None):
        """Run body(I) once per feasible path.  body returns nothing; obligations are recorded.
        start: decision prefixes to explore (default: the root); budget: stop after that many paths and return the
        unexplored prefixes (path-level sharding: any worker can continue from a prefix, paths are re-executed from the
        function entry with the decisions of the prefix)."""
        work = [list(p) for p in start] if start is not None else [[]]
        n = 0
        self.leftover = []
        if self.deadline is None and TASK_BUDGET_S > 0:
            self.deadline = _time.time() + TASK_BUDGET_S
        while work:
            if self.deadline is not None and _time.time() > self.deadline:
                raise BudgetExceeded(f"task time budget of {TASK_BUDGET_S} s exceeded after {n} paths")
            if budget is not None and n >= budget:
                self.leftover = work
                return n
            prefix = work.pop()
            self.begin_path(prefix)
            n += 1
            if n > max_paths:
                raise Unsupported(f"more than {max_paths} paths")
            try:
                body(self)
            except PathEnd:
                pass
            except PyRaise as pr:
                # an interpreted exception escaped into the contract code (e.g. a postcondition indexed a value
                # that turned out empty): this path is undecided, the other paths and obligations still count
                self.path_errors.append(f"interpreted exception in contract code: {pr.exc!r} decisions={self.decisions}")
            self.paths += 1
            work.extend(self.new_prefixes)
        return n

    def choose(self, n, label=""):
        i = len(self.decisions)
        if i < len(self.prefix):
            d = self.prefix[i]
        else:
            d = 0
            for k in range(1, n):
                self.new_prefixes.append(self.decisions + [k])
        self.decisions.append(d)
        return d

    def fresh(self, kind, hint="v"):
        self._fresh_n += 1
        name = f"{hint}!{self._fresh_n}"
        return SV(self._mk(kind, name), kind)

    def _mk(self, kind, name):
        if kind == "int":
            return z3.Int(name)
        if kind == "bool":
            return z3.Bool(name)
        if kind == "real":
            return z3.Real(name)
        if kind == "str":
            return z3.String(name)
        if kind == "bytes":
            return z3.Const(name, BYTES)
        raise Unsupported(f"fresh kind {kind}")

    def input(self, kind, name):
        """Named symbolic input (appears in counterexample models)."""
        e = self._mk(kind, name)
        self.inputs[name] = e
        return SV(e, kind)

    def fresh_like(self, v, hint="h"):
        if isinstance(v, bool):
            return self.fresh("bool", hint)
        if isinstance(v, int):
            return self.fresh("int", hint)
        if isinstance(v, float):
            return self.fresh("real", hint)
        if isinstance(v, str):
            return self.fresh("str", hint)
        if isinstance(v, bytes):
            return self.fresh("bytes", hint)
        if isinstance(v, SV):
            return self.fresh(v.k, hint)
        if isinstance(v, ByteArr):
            return ByteArr(self.fresh("bytes", hint))
        if v is None:
            return self.opaque(hint, nonnull=False)
        if isinstance(v, Env):
            return self.opaque(hint, nonnull=v.nonnull)
        # objects / containers: an opaque value (sound: nothing is known about it after the havoc)
        return self.opaque(hint, nonnull=False)

    def opaque(self, hint="op", nonnull=True, cls=None):
        self._fresh_n += 1
        return Env(f"{hint}!{self._fresh_n}", nonnull=nonnull, cls=cls)

    def assume(self, f):
        if isinstance(f, bool):
            if not f:
                raise PathEnd()
            return
        self.pc.append(f)
        self.solver.add(f)

    def feasible(self, f=None):
        t0 = _time.perf_counter()
        if f is not None:
            self.solver.push()
            self.solver.add(f)
        try:
            r = self.solver.check()
        except z3.Z3Exception:
            r = z3.unknown
        if f is not None:
            self.solver.pop()
        self.solver_ms += (_time.perf_counter() - t0) * 1000
        self.queries += 1
        return r != z3.unsat

    def concretize(self, e):
        """python int c if the path condition forces e == c, else None"""
        if isinstance(e, int):
            return e
        s_ = z3.simplify(e, som=True)
        if z3.is_int_value(s_):
            return s_.as_long()
        try:
            if self.solver.check() != z3.sat:
                return None
            c = self.solver.model().eval(e, model_completion=True)
        except z3.Z3Exception:
            return None
        if not z3.is_int_value(c):
            return None
        return c.as_long() if self.valid(e == c) else None

    def valid(self, f):
        """True iff pc => f is proved."""
        if isinstance(f, bool):
            return f
        return not self.feasible(z3.Not(f))

    def as_bool(self, v):
        """the Python bool a RETURNED value denotes on this path: True / False for a bool (also a symbolic one that the path
        condition decides - `r = k in d; if r: ...; return r` returns the membership Boolean, not the constant), None for
        anything else.  Contracts compare results with this instead of `is True`, so that they do not depend on whether the
        code returns a literal or a variable holding the same truth value."""
        if isinstance(v, bool):
            return v
        if isinstance(v, SV) and v.k == "bool":
            if self.valid(v.e):
                return True
            if self.valid(z3.Not(v.e)):
                return False
        return None

    def branch(self, v, label="if") -> bool:
        """Decide the truth of value v on this path, forking when both outcomes are feasible."""
        t = self.truth(v)
        if isinstance(t, bool):
            return t
        t = z3.simplify(t)
        if z3.is_true(t):
            return True
        if z3.is_false(t):
            return False
        i = len(self.decisions)
        if i < len(self.prefix):
            d = self.prefix[i]
            self.decisions.append(d)
            self.assume(t if d == 0 else z3.Not(t))
            return d == 0
        ft = self.feasible(t)
        ff = self.feasible(z3.Not(t))
        if ft and ff:
            self.new_prefixes.append(self.decisions + [1])
            self.decisions.append(0)
            self.assume(t)
            return True
        if ft:
            self.decisions.append(0)      # forced: recorded so that replays of this prefix stay aligned
            self.assume(t)
            return True
        if ff:
            self.decisions.append(1)
            self.assume(z3.Not(t))
            return False
        raise PathEnd()

    # ------------------------------------------------------------------ obligations
    def ob(self, oid, formula, detail=None):
        t0 = _time.perf_counter()
        if isinstance(formula, bool):
            st = "discharged" if formula else "failed"
            rec = ObRecord(oid, st, "evaluation", 0.0, self.decisions, self._model_of(None) if not formula else None,
                           detail, str(formula))
            if not formula:
                # a concretely false obligation only counts if the path is feasible.  Branch decisions treat a solver
                # `unknown` as "may be feasible" (sound for proving: it only adds paths) - so a failure on such a path is a
                # violation only if the path condition is shown satisfiable; otherwise it is infeasible (vacuous) or undecided
                try:
                    r = self.solver.check()
                except z3.Z3Exception:
                    r = z3.unknown
                if r == z3.unsat:
                    rec = ObRecord(oid, "discharged", "z3", 0.0, self.decisions, None, detail, "path infeasible")
                elif r == z3.sat:
                    try:
                        rec.model = self._model_of(self.solver.model())
                    except z3.Z3Exception:
                        rec.model = {}
                else:
                    st2, backend2, model2 = smt.second_opinion(self.solver, self.inputs)
                    if st2 == "discharged":
                        rec = ObRecord(oid, "discharged", backend2, 0.0, self.decisions, None, detail, "path infeasible")
                    elif st2 == "failed":
                        rec = ObRecord(oid, "failed", backend2, 0.0, self.decisions, model2 or {}, detail, str(formula))
                    else:
                        rec = ObRecord(oid, "undecided", backend2, 0.0, self.decisions, None, detail,
                                       "the obligation is false on this path, whose feasibility no solver decided")
            self.records.append(rec)
            return rec.status == "discharged"
        self.solver.push()
        self.solver.add(z3.Not(formula))
        if smt.has_strings(formula) or self._pc_has_strings():
            r = z3.unknown       # string goals go to the external solvers (hard time limits)
        else:
            try:
                r = self.solver.check()
            except z3.Z3Exception:
                r = z3.unknown
        model = None
        backend = "z3"
        if r == z3.sat:
            status = "failed"
            model = self._model_of(self.solver.model())
        elif r == z3.unsat:
            status = "discharged"
            if RECHECK and _RC_SEEN.get(oid, 0) < RECHECK_PER_ID:
                # thorough tier: second solver on the discharged VC (every obligation id, up to RECHECK_PER_ID of its path
                # instances per worker process - the instances of one id differ only in the path condition)
                _RC_SEEN[oid] = _RC_SEEN.get(oid, 0) + 1
                rc = smt.recheck_unsat(self.solver)
                self.recheck[rc] = self.recheck.get(rc, 0) + 1
                backend = {"agree": "z3+cvc5", "unknown": "z3 (cvc5: unknown)", "DISAGREE": "z3-unsat/cvc5-SAT"}[rc]
                if rc == "DISAGREE":
                    status = "undecided"
        else:
            status, backend, model = smt.second_opinion(self.solver, self.inputs)
        ftxt = None
        if status != "discharged":
            try:
                ftxt = str(z3.simplify(formula))[:2000]
            except Exception:
                ftxt = "<formula>"
        self.solver.pop()
        ms = (_time.perf_counter() - t0) * 1000
        self.solver_ms += ms
        self.queries += 1
        self.records.append(ObRecord(oid, status, backend, ms, self.decisions, model, detail, ftxt))
        return status == "discharged"

    def _pc_has_strings(self):
        """does the path condition mention strings (checked incrementally: only the formulas added since the last call)"""
        c = self._pcs
        n = len(self.pc)
        if n < c[0]:
            c[0], c[1] = 0, False        # the path condition shrank (speculative evaluation was rolled back): recompute
        for f in self.pc[c[0]:]:
            if not c[1] and smt.has_strings(f):
                c[1] = True
        c[0] = n
        return c[1]

    def lemma(self, oid, formula, hyps=()):
        """A stated lemma: proved on its own (no path condition, only `hyps`), recorded as an obligation,
        then assumed on this path.  Used for nonlinear / inductive facts the solver will not find unprompted."""
        t0 = _time.perf_counter()
        s = z3.Solver()
        s.set("timeout", 20000)
        for h in hyps:
            s.add(h)
        s.add(z3.Not(formula))
        r = s.check()
        ms = (_time.perf_counter() - t0) * 1000
        self.solver_ms += ms
        self.queries += 1
        if r == z3.unsat:
            status, backend = "discharged", "z3"
        elif r == z3.sat:
            status, backend = "failed", "z3"
        else:
            status, backend, _ = smt.second_opinion(s, {})
        self.records.append(ObRecord(oid, status, backend, ms, self.decisions, None, "lemma", str(formula)[:500]))
        if status == "discharged":
            for h in hyps:
                pass
            self.assume(z3.Implies(z3.And(*hyps), formula) if hyps else formula)
        return status == "discharged"

    def _model_of(self, m):
        out = {}
        if m is None:
            return out
        for name, e in self.inputs.items():
            try:
                v = m.eval(e, model_completion=True)
                out[name] = smt.py_of(v)
            except Exception:
                out[name] = None
        return out

    # ------------------------------------------------------------------ exceptions
    def make_exc(self, name, *args, ci=None):
        return ExcVal(name, args, ci)

    def raise_(self, name, *args):
        raise PyRaise(self.make_exc(name, *args))

    def exc_isinstance(self, exc: ExcVal, handler_type) -> bool:
        """handler_type: str (builtin name) | ClassInfo | tuple thereof"""
        if isinstance(handler_type, (tuple, list)):
            return any(self.exc_isinstance(exc, h) for h in handler_type)
        if isinstance(handler_type, ClassRef):
            handler_type = handler_type.ci
        if isinstance(handler_type, Ext):
            handler_type = handler_type.name
        if isinstance(handler_type, ClassInfo):
            return exc.ci is not None and exc.ci.is_subclass_of(self.repo, handler_type)
        if isinstance(handler_type, str):
            h = canon_exc(handler_type)
            if exc.ci is not None:
                for b in [exc.ci.name] + exc.ci.external_bases(self.repo):
                    if h in builtin_exc_ancestors(b):
                        return True
                return False
            return h in builtin_exc_ancestors(exc.cls_name)
        raise Unsupported(f"except clause type {handler_type!r}")

    # ------------------------------------------------------------------ truth / equality
    def resolve_seq(self, v):
        """an (empty) Python list that was extended in place with a symbolic-length sequence stands for that sequence"""
        if isinstance(v, list) and not v and id(v) in self.sym_ext and self.sym_ext[id(v)][0] is v:
            return self.sym_ext[id(v)][1]
        return v

    def truth(self, v):
        v = self.resolve_seq(v)
        if self.cfg.truth_hook is not None:
            r = self.cfg.truth_hook(self, v)
            if r is not NotImplemented:
                return r
        if v is None:
            return False
        if isinstance(v, (bool, int, float, str, bytes, tuple, list, dict, set, frozenset, range)):
            return bool(v)
        if isinstance(v, SV):
            if v.k == "bool":
                return v.e
            if v.k in ("int", "real"):
                return v.e != 0
            if v.k in ("str", "bytes"):
                return z3.Length(v.e) > 0
        if isinstance(v, ByteArr):
            return self.truth(v.v)
        if isinstance(v, Obj):
            m = v.cls.find(self.repo, "__bool__")
            if m and m[0] == "method":
                return self.truth(self.call_func(m[1], [v], {}))
            m = v.cls.find(self.repo, "__len__")
            if m and m[0] == "method":
                return self.truth(self.call_func(m[1], [v], {}))
            return True
        if isinstance(v, Env):
            if v.truth is None:
                self._fresh_n += 1
                v.truth = z3.Bool(f"truth({v.path})!{self._fresh_n}")
                if not v.nonnull:
                    # None is falsy
                    self.assume(z3.Implies(self.isnone(v), z3.Not(v.truth)))
            return v.truth
        if isinstance(v, SymSeq):
            return v.length > 0
        if isinstance(v, (FuncRef, ClassRef, ModRef, Ext, BoundBuiltin, LambdaRef, GenObj, ExcVal)):
            return True
        if hasattr(v, "truth"):
            return v.truth(self)
        raise Unsupported(f"truth of {type(v).__name__}")

    def isnone(self, v):
        if v is None:
            return True
        if isinstance(v, Env):
            if v.nonnull:
                return False
            if v.isnone is None:
                self._fresh_n += 1
                v.isnone = z3.Bool(f"isnone({v.path})!{self._fresh_n}")
            return v.isnone
        return False

    def z(self, v, kind=None):
        """Value -> z3 expression."""
        if isinstance(v, SV):
            if kind == "real" and v.k == "int":
                return z3.ToReal(v.e)
            return v.e
        if isinstance(v, bool):
            if kind == "int":
                return z3.IntVal(int(v))
            return z3.BoolVal(v)
        if isinstance(v, int):
            if kind == "real":
                return z3.RealVal(v)
            return z3.IntVal(v)
        if isinstance(v, float):
            return z3.RealVal(repr(v))
        if isinstance(v, str):
            return z3.StringVal(v)
        if isinstance(v, (bytes, bytearray)):
            return smt.bytes_lit(bytes(v))
        if isinstance(v, ByteArr):
            return self.z(v.v)
        if z3.is_expr(v):
            return v
        if hasattr(v, "to_z3"):
            return v.to_z3()
        raise Unsupported(f"no z3 form for {type(v).__name__}")

    def kind_of(self, v):
        if isinstance(v, SV):
            return v.k
        if isinstance(v, bool):
            return "bool"
        if isinstance(v, int):
            return "int"
        if isinstance(v, float):
            return "real"
        if isinstance(v, str):
            return "str"
        if isinstance(v, (bytes, bytearray)):
            return "bytes"
        if isinstance(v, ByteArr):
            return self.kind_of(v.v)
        if hasattr(v, "sym_kind"):
            return v.sym_kind()
        return None

    def eq(self, a, b):
        """Python == ; returns bool or z3 Bool."""
        if isinstance(a, ByteArr):
            a = a.v
        if isinstance(b, ByteArr):
            b = b.v
        if hasattr(a, "sym_eq"):
            return a.sym_eq(self, b)
        if hasattr(b, "sym_eq"):
            return b.sym_eq(self, a)
        sa, sb = isinstance(a, SV), isinstance(b, SV)
        if sa or sb:
            ka, kb = self.kind_of(a), self.kind_of(b)
            if ka is None or kb is None:
                if a is None or b is None:
                    return False
                if isinstance(a, Env) or isinstance(b, Env):
                    self._fresh_n += 1
                    return z3.Bool(f"eq!{self._fresh_n}")
                return False
            num = ("int", "real", "bool")
            if ka == kb:
                return self.z(a) == self.z(b)
            if ka in num and kb in num:
                if "real" in (ka, kb):
                    return self._num(a, "real") == self._num(b, "real")
                return self._num(a, "int") == self._num(b, "int")
            return False
        if isinstance(a, Obj) and isinstance(b, Obj):
            m = a.cls.find(self.repo, "__eq__")
            if m and m[0] == "method":
                return self.truth(self.call_func(m[1], [a, b], {}))
            return a is b
        if isinstance(a, Obj) or isinstance(b, Obj):
            o, other = (a, b) if isinstance(a, Obj) else (b, a)
            m = o.cls.find(self.repo, "__eq__")
            if m and m[0] == "method":
                return self.truth(self.call_func(m[1], [o, other], {}))
            return False
        if isinstance(a, Env) or isinstance(b, Env):
            if a is b:
                return True
            e, other = (a, b) if isinstance(a, Env) else (b, a)
            if other is None:
                return self.isnone(e)
            key = ("eq", id(other) if isinstance(other, Env) else repr(other))
            if key not in e.data:
                self._fresh_n += 1
                e.data[key] = z3.Bool(f"eq({e.path},{other!r})!{self._fresh_n}"[:120])
            return e.data[key]
        if isinstance(a, (list, tuple)) and isinstance(b, (list, tuple)) and type(a) == type(b):
            if len(a) != len(b):
                return False
            parts = [self.eq(x, y) for x, y in zip(a, b)]
            if all(isinstance(p, bool) for p in parts):
                return all(parts)
            return z3.And([p if not isinstance(p, bool) else z3.BoolVal(p) for p in parts])
        if isinstance(a, dict) and isinstance(b, dict):
            # dict equality: same keys, equal values (keys of interpreted dicts are concrete hashables)
            if set(a.keys()) != set(b.keys()):
                return False
            parts = [self.eq(a[k], b[k]) for k in a]
            if all(isinstance(p_, bool) for p_ in parts):
                return all(parts)
            return z3.And([p_ if not isinstance(p_, bool) else z3.BoolVal(p_) for p_ in parts])
        if isinstance(a, ClassRef) and isinstance(b, ClassRef):
            return a.ci is b.ci
        if isinstance(a, FuncRef) and isinstance(b, FuncRef):
            return a.fi is b.fi and a.self_val is b.self_val
        try:
            return a == b
        except Exception:
            return a is b

    def _num(self, v, kind):
        if isinstance(v, SV):
            if v.k == "bool":
                e = z3.If(v.e, 1, 0)
                return z3.ToReal(e) if kind == "real" else e
            if v.k == "int" and kind == "real":
                return z3.ToReal(v.e)
            return v.e
        if isinstance(v, bool):
            v = int(v)
        if isinstance(v, int):
            return z3.RealVal(v) if kind == "real" else z3.IntVal(v)
        if isinstance(v, float):
            return z3.RealVal(repr(v))
        raise Unsupported(f"numeric value expected, got {type(v).__name__}")

    def is_(self, a, b):
        if a is None or b is None:
            other = b if a is None else a
            return self.isnone(other)
        if isinstance(a, SV) or isinstance(b, SV):
            if isinstance(a, bool) or isinstance(b, bool) or \
                    (isinstance(a, SV) and a.k == "bool") or (isinstance(b, SV) and b.k == "bool"):
                ka, kb = self.kind_of(a), self.kind_of(b)
                if ka == "bool" and kb == "bool":
                    return self.z(a) == self.z(b)
                return False
            return self.eq(a, b)
        if isinstance(a, (bool, int, str, bytes)) and isinstance(b, (bool, int, str, bytes)):
            return type(a) is type(b) and a == b
        return a is b

    # ------------------------------------------------------------------ arithmetic
    def binop(self, op, a, b):
        if isinstance(a, ByteArr):
            a = a.v
        if isinstance(b, ByteArr):
            b = b.v
        if hasattr(a, "sym_binop"):
            r = a.sym_binop(self, op, b, False)
            if r is not NotImplemented:
                return r
        if hasattr(b, "sym_binop"):
            r = b.sym_binop(self, op, a, True)
            if r is not NotImplemented:
                return r
        if isinstance(op, ast.Add) and (isinstance(a, SymSeq) or isinstance(b, SymSeq)) \
                and isinstance(a, (list, tuple, SymSeq)) and isinstance(b, (list, tuple, SymSeq)):
            from .symcoll import ConcatSeq
            return ConcatSeq([a, b])
        if not isinstance(a, SV) and not isinstance(b, SV):
            if isinstance(a, (Env, Obj)) or isinstance(b, (Env, Obj)):
                if isinstance(op, ast.Mod) and isinstance(a, str):
                    return self.fresh("str", "fmt")
                raise Unsupported(f"binary {type(op).__name__} on opaque value")
            try:
                return _PYBIN[type(op)](a, b)
            except ZeroDivisionError:
                self.raise_("ZeroDivisionError", "division by zero")
            except TypeError as e:
                self.raise_("TypeError", str(e))
        ka, kb = self.kind_of(a), self.kind_of(b)
        if ka in ("bytes", "str") and ka == kb:
            if isinstance(op, ast.Add):
                return SV(z3.Concat(self.z(a), self.z(b)), ka)
            raise Unsupported(f"{type(op).__name__} on symbolic {ka}")
        if ka == "str" and isinstance(op, ast.Mod):
            return self.fresh("str", "fmt")
        if ka == "bytes" and kb == "int" and isinstance(op, ast.Mult):
            raise Unsupported("bytes * symbolic int")
        num = ("int", "real", "bool")
        if ka in num and kb in num:
            kind = "real" if "real" in (ka, kb) or isinstance(op, ast.Div) else "int"
            x, y = self._num(a, kind), self._num(b, kind)
            if isinstance(op, ast.Add):
                return SV(x + y, kind)
            if isinstance(op, ast.Sub):
                return SV(x - y, kind)
            if isinstance(op, ast.Mult):
                return SV(x * y, kind)
            if isinstance(op, ast.Div):
                if not self.valid(y != 0):
                    if self.branch(SV(y == 0, "bool")):
                        self.raise_("ZeroDivisionError", "division by zero")
                return SV(x / y, "real")
            if isinstance(op, (ast.FloorDiv, ast.Mod)) and kind == "int":
                if not self.valid(y != 0):
                    if self.branch(SV(y == 0, "bool")):
                        self.raise_("ZeroDivisionError", "integer division or modulo by zero")
                # z3 div: x = y*q + r with 0 <= r < |y|; Python floors the quotient
                if self.valid(y > 0):
                    q = x / y
                    m = x % y
                else:
                    q = z3.If(y > 0, x / y, z3.If(x % y == 0, x / y, x / y - 1))
                    m = x - q * y
                return SV(q if isinstance(op, ast.FloorDiv) else m, "int")
            if isinstance(op, ast.Pow) and isinstance(b, int) and 0 <= b <= 4:
                r = z3.IntVal(1) if kind == "int" else z3.RealVal(1)
                for _ in range(b):
                    r = r * x
                return SV(r, kind)
            if isinstance(op, ast.BitAnd) and isinstance(b, int) and b >= 0 and (b & (b + 1)) == 0 and kind == "int":
                # x & (2^k - 1) for x >= 0
                if self.valid(x >= 0):
                    return SV(x % (b + 1), "int")
            if isinstance(op, ast.BitAnd) and kind == "int" and (isinstance(b, int) or isinstance(a, int)):
                m, xe = (b, x) if isinstance(b, int) and not isinstance(b, bool) else (a, y)
                if isinstance(m, int) and m > 0 and (m & (m - 1)) == 0 and self.valid(xe >= 0):
                    # x & 2^k  ==  ((x div 2^k) mod 2) * 2^k   for x >= 0
                    return SV(((xe / m) % 2) * m, "int")
            if isinstance(op, (ast.BitAnd, ast.BitOr, ast.BitXor, ast.LShift, ast.RShift)) and kind == "int":
                bvx, bvy = z3.Int2BV(x, 64), z3.Int2BV(y, 64)
                if self.valid(z3.And(x >= 0, y >= 0, x < 2 ** 32, y < 2 ** 32)):
                    f = {ast.BitAnd: lambda p, q_: p & q_, ast.BitOr: lambda p, q_: p | q_,
                         ast.BitXor: lambda p, q_: p ^ q_, ast.LShift: lambda p, q_: p << q_,
                         ast.RShift: lambda p, q_: z3.LShR(p, q_)}[type(op)]
                    if isinstance(op, ast.LShift) and not self.valid(y < 32):
                        raise Unsupported("shift by unbounded amount")
                    return SV(z3.BV2Int(f(bvx, bvy), False), "int")
            raise Unsupported(f"{type(op).__name__} on symbolic numbers")
        raise Unsupported(f"binary {type(op).__name__} on {ka}/{kb}")

    def compare(self, op, a, b):
        if isinstance(op, ast.Eq):
            return self.eq(a, b)
        if isinstance(op, ast.NotEq):
            return self.neg(self.eq(a, b))
        if isinstance(op, ast.Is):
            return self.is_(a, b)
        if isinstance(op, ast.IsNot):
            return self.neg(self.is_(a, b))
        if isinstance(op, ast.In):
            return self.contains(b, a)
        if isinstance(op, ast.NotIn):
            return self.neg(self.contains(b, a))
        if isinstance(a, ByteArr):
            a = a.v
        if isinstance(b, ByteArr):
            b = b.v
        for x, y, refl in ((a, b, False), (b, a, True)):
            if hasattr(x, "sym_cmp"):
                r = x.sym_cmp(self, op, y, refl)
                if r is not NotImplemented:
                    return r
        if not isinstance(a, SV) and not isinstance(b, SV):
            if isinstance(a, (Env, Obj)) or isinstance(b, (Env, Obj)) or a is None or b is None:
                if a is None or b is None:
                    self.raise_("TypeError", "'<' not supported between NoneType and other")
                self._fresh_n += 1
                return z3.Bool(f"cmp!{self._fresh_n}")
            plain = (bool, int, float, str, bytes, tuple, list)
            if not isinstance(a, plain) or not isinstance(b, plain):
                raise Unsupported(f"ordering comparison of {type(a).__name__} and {type(b).__name__}")
            try:
                return _PYCMP[type(op)](a, b)
            except TypeError as e:
                self.raise_("TypeError", str(e))
        ka, kb = self.kind_of(a), self.kind_of(b)
        num = ("int", "real", "bool")
        if ka in num and kb in num:
            kind = "real" if "real" in (ka, kb) else "int"
            x, y = self._num(a, kind), self._num(b, kind)
            return {ast.Lt: x < y, ast.LtE: x <= y, ast.Gt: x > y, ast.GtE: x >= y}[type(op)]
        if a is None or b is None:
            self.raise_("TypeError", "'<' not supported between instances of 'NoneType' and a number")
        if isinstance(a, Env) or isinstance(b, Env):
            # ordering against an opaque value: an unconstrained Boolean
            self._fresh_n += 1
            return z3.Bool(f"cmp!{self._fresh_n}")
        raise Unsupported(f"compare {type(op).__name__} on {ka}/{kb}")

    def neg(self, t):
        if isinstance(t, bool):
            return not t
        return z3.Not(t)

    def contains(self, container, item):
        if isinstance(container, ByteArr):
            container = container.v
        if hasattr(container, "sym_contains"):
            return container.sym_contains(self, item)
        if isinstance(container, (list, tuple, set, frozenset)):
            parts = [self.eq(item, x) for x in container]
            if any(p is True for p in parts):
                return True
            sym = [p for p in parts if not isinstance(p, bool)]
            if not sym:
                return False
            return z3.Or(sym)
        if isinstance(container, dict):
            return self.contains(list(container.keys()), item)
        if isinstance(container, range):
            if isinstance(item, SV):
                if container.step != 1:
                    raise Unsupported("range step")
                return z3.And(item.e >= container.start, item.e < container.stop)
            return item in container
        if isinstance(container, (str, bytes)) and isinstance(item, (str, bytes, int)):
            return item in container
        if isinstance(container, (str, SV)) and self.kind_of(container) == "str" and self.kind_of(item) == "str":
            return z3.Contains(self.z(container), self.z(item))
        if isinstance(container, Env):
            key = ("contains", repr(item) if not isinstance(item, (Env, Obj)) else id(item))
            if key not in container.data:
                self._fresh_n += 1
                container.data[key] = z3.Bool(f"in({container.path})!{self._fresh_n}")
            return container.data[key]
        if isinstance(container, Obj):
            m = container.cls.find(self.repo, "__contains__")
            if m and m[0] == "method":
                return self.truth(self.call_func(m[1], [container, item], {}))
        raise Unsupported(f"'in' on {type(container).__name__}")

    # ------------------------------------------------------------------ names / modules
    def module_ns(self, mod: ModuleInfo):
        """Execute the module's top-level statements (assignments, loops, NAME.update(...)) once;
        statements outside the subset are skipped (their names then fall back to direct evaluation
        of the defining expression, or are Unsupported when used)."""
        if mod.name in self._module_ns:
            return self._module_ns[mod.name]
        fr = Frame(None, mod)
        self._module_ns[mod.name] = fr.locals
        self._exec_toplevel(mod.tree.body, fr)
        return fr.locals

    def _exec_toplevel(self, body, fr):
        for st in body:
            if isinstance(st, (ast.FunctionDef, ast.ClassDef, ast.Import, ast.ImportFrom, ast.AsyncFunctionDef)):
                continue
            if isinstance(st, ast.If) and ast.unparse(st.test) == "TYPE_CHECKING":
                continue
            if isinstance(st, ast.Expr) and isinstance(st.value, ast.Constant):
                continue
            saved = (self.pc, self.trace, self.decisions, self.new_prefixes)
            try:
                for _ in self.exec_stmt(st, fr):
                    pass
            except (Unsupported, PyRaise, ReturnSig, BreakSig, ContinueSig):
                self.notes.append(f"module-level statement skipped: {fr.module.name}:{st.lineno}")
            if len(self.decisions) != len(saved[2]):
                raise Unsupported(f"module-level statement forked: {fr.module.name}:{st.lineno}")

    def module_const(self, mod: ModuleInfo, name: str, expr):
        key = (mod.name, name)
        if key in self.cfg.module_consts:
            v = self.cfg.module_consts[key]
            return v(self) if callable(v) else v
        ns = self.module_ns(mod)
        if name in ns:
            return ns[name]
        if key in self._const_cache:
            return self._const_cache[key]
        v = self.eval(expr, Frame(None, mod))
        self._const_cache[key] = v
        return v

    def resolve_global(self, mod: ModuleInfo, name: str):
        key = (mod.name, name)
        if key in self.cfg.module_consts:
            v = self.cfg.module_consts[key]
            return v(self) if callable(v) else v
        r = mod.resolve_static(self.repo, name)
        if r is None:
            if name in _BUILTIN_NAMES:
                return Ext(name)
            if name in BUILTIN_EXC_PARENT or name in ("IOError", "EnvironmentError"):
                return Ext(name)
            raise Unsupported(f"unresolved name {name} in {mod.name}")
        return self._static_to_value(r)

    def _static_to_value(self, r):
        if isinstance(r, FuncInfo):
            return FuncRef(r)
        if isinstance(r, ClassInfo):
            return ClassRef(r)
        if r[0] == "module":
            return ModRef(r[1])
        if r[0] == "external":
            # names created dynamically in a repository module (globals()[...] = ...) can be given by the contract
            modn, _, attr = r[1].rpartition(".")
            if (modn, attr) in self.cfg.module_consts:
                v = self.cfg.module_consts[(modn, attr)]
                return v(self) if callable(v) else v
            if r[1] in self.cfg.ext_consts:
                return self.cfg.ext_consts[r[1]]
            return Ext(r[1])
        if r[0] == "const":
            return self.module_const(r[1], r[3], r[2])
        raise Unsupported(f"static {r!r}")

    def module_attr(self, modname: str, attr: str):
        if modname.startswith("pynetdicom"):
            m = self.repo.try_module(modname)
            if m is not None:
                key = (m.name, attr)
                if key in self.cfg.module_consts:
                    v = self.cfg.module_consts[key]
                    return v(self) if callable(v) else v
                r = m.resolve_static(self.repo, attr)
                if r is not None:
                    return self._static_to_value(r)
                sub = self.repo.try_module(f"{modname}.{attr}")
                if sub is not None:
                    return ModRef(sub.name)
            raise Unsupported(f"attribute {attr} of module {modname}")
        if f"{modname}.{attr}" in self.cfg.ext_consts:
            return self.cfg.ext_consts[f"{modname}.{attr}"]
        return Ext(f"{modname}.{attr}")

    # ------------------------------------------------------------------ attribute access
    def getattr(self, v, name, node=None):
        if isinstance(v, BoundBuiltin) and isinstance(v.recv, SV) and v.recv.k == "str":
            # an attribute of a str SUBCLASS instance (pydicom UID: .name, .keyword, ...) used as a value:
            # an unconstrained string / Boolean (assumed: these properties do not raise)
            key = ("uidattr", v.name, str(v.recv.e))
            if v.name.startswith("is_"):
                v = self.fresh("bool", f"uid.{v.name}")
            else:
                v = self.fresh("str", f"uid.{v.name}")
        if isinstance(v, Obj):
            if self.cfg.obj_getattr is not None:
                r = self.cfg.obj_getattr(self, v, name)
                if r is not NotImplemented:
                    return r
            if name in v.fields:
                return v.fields[name]
            if name == "__class__":
                return ClassRef(v.cls)
            m = v.cls.find(self.repo, name)
            if m is None:
                if name == "__dict__":
                    return v.fields
                self.raise_("AttributeError", f"'{v.cls.name}' object has no attribute '{name}'")
            kind, x = m
            if kind == "method":
                if x.is_static:
                    return FuncRef(x)
                if x.is_classmethod:
                    return FuncRef(x, ClassRef(v.cls))
                return FuncRef(x, v)
            if kind == "prop":
                if x.fget is None:
                    self.raise_("AttributeError", f"unreadable attribute {name}")
                return self.call_func(x.fget, [v], {})
            ci, expr = x
            val = self.eval(expr, Frame(None, ci.module))
            if isinstance(val, FuncRef) and val.self_val is None:
                return FuncRef(val.fi, v)
            return val
        if isinstance(v, Env):
            if name in v.attrs:
                return v.attrs[name]
            if name == "__class__" and isinstance(v.cls, ClassInfo):
                return ClassRef(v.cls)
            if self.cfg.env_attr is not None:
                r = self.cfg.env_attr(self, v, name)
                if r is not NotImplemented:
                    if type(r).__name__ == "Volatile":
                        return r.value          # may change between reads (other threads / handlers): not memoised
                    v.attrs[name] = r
                    return r
            if isinstance(v.cls, ClassInfo):
                m = v.cls.find(self.repo, name)
                if m is not None and m[0] == "attr":
                    ci, expr = m[1]
                    return self.eval(expr, Frame(None, ci.module))
                if m is not None and m[0] == "method":
                    x = m[1]
                    return FuncRef(x) if x.is_static else FuncRef(x, v)
                if m is not None and m[0] == "prop" and m[1].fget is not None:
                    return self.call_func(m[1].fget, [v], {})
            child = Env(f"{v.path}.{name}", nonnull=True)
            child.data["parent"] = v
            child.data["attr"] = name
            v.attrs[name] = child
            return child
        if isinstance(v, ModRef):
            return self.module_attr(v.name, name)
        if isinstance(v, ClassRef):
            m = v.ci.find(self.repo, name)
            if m is None:
                if name == "__name__":
                    return v.ci.name
                self.raise_("AttributeError", f"type object '{v.ci.name}' has no attribute '{name}'")
            kind, x = m
            if kind == "method":
                if x.is_classmethod:
                    return FuncRef(x, v)
                return FuncRef(x)
            if kind == "attr":
                ci, expr = x
                return self.eval(expr, Frame(None, ci.module))
            raise Unsupported(f"class attribute {name} is a property")
        if isinstance(v, Ext):
            if name == "__name__":
                return v.name.split(".")[-1]
            if f"{v.name}.{name}" in self.cfg.ext_consts:
                return self.cfg.ext_consts[f"{v.name}.{name}"]
            return Ext(f"{v.name}.{name}")
        if isinstance(v, SuperRef):
            mro = v.obj.cls.mro(self.repo) if isinstance(v.obj, Obj) else v.obj.ci.mro(self.repo)
            idx = mro.index(v.after_cls)
            for c in mro[idx + 1:]:
                if name in c.methods:
                    return FuncRef(c.methods[name], v.obj)
                if name in c.props:
                    return self.call_func(c.props[name].fget, [v.obj], {})
            if name == "__init__":
                return Ext("object.__init__", v.obj)
            raise Unsupported(f"super().{name}")
        if isinstance(v, ExcVal):
            if name == "args":
                return v.args
            if name in v.fields:
                return v.fields[name]
            if name == "__class__":
                return Ext(v.cls_name)
            return self.opaque(f"exc.{name}")
        if isinstance(v, FuncRef):
            if name == "__name__":
                return v.fi.name
            raise Unsupported(f"function attribute {name}")
        if isinstance(v, LambdaRef):
            if name == "__name__":
                return "<lambda>"
        if hasattr(v, "sym_getattr"):
            r = v.sym_getattr(self, name)
            if r is not NotImplemented:
                return r
        if v is None:
            if name == "__class__":
                return Ext("NoneType")
            self.raise_("AttributeError", f"'NoneType' object has no attribute '{name}'")
        # methods of builtin values
        return BoundBuiltin(v, name)

    def setattr(self, v, name, val):
        if isinstance(v, Obj) and name == "__class__":
            if isinstance(val, ClassRef):
                v.cls = val.ci
                return
            raise Unsupported("__class__ assignment to a non-class value")
        if isinstance(v, Obj):
            m = v.cls.find(self.repo, name)
            if m is not None and m[0] == "prop":
                if m[1].fset is None:
                    self.raise_("AttributeError", f"can't set attribute '{name}'")
                self.call_func(m[1].fset, [v, val], {})
                return
            v.fields[name] = val
            return
        if isinstance(v, Env):
            if self.cfg.env_setattr is not None and self.cfg.env_setattr(self, v, name, val):
                return
            v.attrs[name] = val
            self.trace.append(Ev("setattr", (v.path, name, val)))
            return
        if isinstance(v, ExcVal):
            v.fields[name] = val
            return
        if v is None:
            self.raise_("AttributeError", f"'NoneType' object has no attribute '{name}'")
        if hasattr(v, "sym_setattr"):
            return v.sym_setattr(self, name, val)
        raise Unsupported(f"setattr on {type(v).__name__}")

    # ------------------------------------------------------------------ calls
    def bind_args(self, fi: FuncInfo, args, kwargs, frame: Frame):
        a = fi.node.args
        params = [p.arg for p in a.posonlyargs + a.args]
        defaults = a.defaults
        nd = len(defaults)
        loc = frame.locals
        args = list(args)
        kwargs = dict(kwargs)
        for i, p in enumerate(params):
            if i < len(args):
                loc[p] = args[i]
            elif p in kwargs:
                loc[p] = kwargs.pop(p)
            else:
                di = i - (len(params) - nd)
                if di >= 0:
                    loc[p] = self.eval(defaults[di], Frame(None, fi.module))
                else:
                    self.raise_("TypeError", f"{fi.name}() missing required argument '{p}'")
        extra = args[len(params):]
        if a.vararg is not None:
            loc[a.vararg.arg] = tuple(extra)
        elif extra:
            self.raise_("TypeError", f"{fi.name}() takes {len(params)} positional arguments but {len(args)} were given")
        for p, d in zip(a.kwonlyargs, a.kw_defaults):
            if p.arg in kwargs:
                loc[p.arg] = kwargs.pop(p.arg)
            elif d is not None:
                loc[p.arg] = self.eval(d, Frame(None, fi.module))
            else:
                self.raise_("TypeError", f"{fi.name}() missing keyword argument '{p.arg}'")
        if a.kwarg is not None:
            loc[a.kwarg.arg] = kwargs
        elif kwargs:
            self.raise_("TypeError", f"{fi.name}() got an unexpected keyword argument '{next(iter(kwargs))}'")

    def call_func(self, fi: FuncInfo, args, kwargs, closure=None):
        q = fi.qualname
        if q in self.cfg.summaries:
            self.used_summaries.add(q)
            return self.cfg.summaries[q](self, list(args), dict(kwargs))
        if q in self.cfg.opaque_calls:
            r = self.opaque(f"ret({fi.name})", nonnull=False)
            self.trace.append(Ev(f"call:{q}", args, kwargs, r))
            return r
        if q in self.cfg.no_inline:
            raise Unsupported(f"call to {q} needs a contract (no_inline)")
        self.used_functions[q] = fi
        frame = Frame(fi, fi.module, closure)
        frame.self_cls = fi.cls
        self.bind_args(fi, args, kwargs, frame)
        if fi.is_generator:
            g = GenObj(self._gen_body(fi, frame), fi.qualname)
            if fi.is_contextmanager:
                g.is_cm = True
            return g
        self.depth += 1
        if self.depth > MAX_DEPTH:
            raise Unsupported("recursion depth")
        try:
            for _ in self.exec_block(fi.body, frame):
                raise Unsupported(f"yield in non-generator {q}")
        except ReturnSig as r:
            return r.value
        finally:
            self.depth -= 1
        return None

    def _gen_body(self, fi, frame):
        try:
            yield from self.exec_block(fi.body, frame)
        except ReturnSig:
            return

    def gen_next(self, g: GenObj):
        """Advance an interpreted generator; returns (True, value) or (False, None) when exhausted."""
        if g.done:
            return False, None
        try:
            v = next(g.pygen)
            return True, v
        except StopIteration:
            g.done = True
            return False, None
        except PyRaise:
            g.done = True
            raise

    def gen_throw(self, g: GenObj, exc: ExcVal):
        if g.done:
            raise PyRaise(exc)
        try:
            v = g.pygen.throw(PyRaise(exc))
            return True, v
        except StopIteration:
            g.done = True
            return False, None
        except PyRaise:
            g.done = True
            raise

    def instantiate(self, ci: ClassInfo, args, kwargs):
        q = ci.qualname
        if q in self.cfg.summaries:
            self.used_summaries.add(q)
            return self.cfg.summaries[q](self, list(args), dict(kwargs))
        ext = ci.external_bases(self.repo)
        if any(e in BUILTIN_EXC_PARENT or e.endswith("Error") or e == "Exception" for e in ext):
            e = ExcVal(ci.name, args, ci)
            m = ci.find(self.repo, "__init__")
            if m and m[0] == "method":
                self.call_func(m[1], [e] + list(args), kwargs)
            return e
        o = Obj(ci)
        if "NamedTuple" in ext:
            names = ci.ann_fields
            vals = list(args)
            for i, nm in enumerate(names):
                if i < len(vals):
                    o.fields[nm] = vals[i]
                elif nm in kwargs:
                    o.fields[nm] = kwargs[nm]
                elif nm in ci.attrs:
                    o.fields[nm] = self.eval(ci.attrs[nm], Frame(None, ci.module))
                else:
                    self.raise_("TypeError", f"missing argument {nm}")
            return o
        m = ci.find(self.repo, "__init__")
        if m and m[0] == "method":
            self.call_func(m[1], [o] + list(args), kwargs)
        return o

    def call_value(self, f, args, kwargs, node=None):
        if isinstance(f, FuncRef):
            a = list(args)
            if f.self_val is not None:
                a = [f.self_val] + a
            return self.call_func(f.fi, a, kwargs, f.closure)
        if isinstance(f, ClassRef):
            return self.instantiate(f.ci, args, kwargs)
        if isinstance(f, Ext):
            from . import libmodels
            return libmodels.call_ext(self, f, list(args), dict(kwargs), node)
        if isinstance(f, BoundBuiltin):
            from . import libmodels
            return libmodels.call_method(self, f.recv, f.name, list(args), dict(kwargs), node)
        if isinstance(f, Env):
            # calling an environment object: f.path is 'a.b.method'
            parent = f.data.get("parent")
            meth = f.data.get("attr")
            if self.cfg.env_call is not None:
                r = self.cfg.env_call(self, parent if parent is not None else f, meth if parent is not None else "__call__", list(args), dict(kwargs))
                if r is not NotImplemented:
                    return r
            r = self.opaque(f"ret({f.path})", nonnull=False)
            self.trace.append(Ev(f.path, args, kwargs, r))
            return r
        if isinstance(f, LambdaRef):
            fr = Frame(None, f.frame.module, f.frame)
            a = f.node.args
            for p, v in zip(a.args, args):
                fr.locals[p.arg] = v
            return self.eval(f.node.body, fr)
        if hasattr(f, "sym_call"):
            return f.sym_call(self, list(args), dict(kwargs))
        raise Unsupported(f"call of {type(f).__name__}")

    # ------------------------------------------------------------------ expressions
    def eval(self, node, fr: Frame):
        m = getattr(self, "e_" + type(node).__name__, None)
        if m is None:
            raise Unsupported(f"expression {type(node).__name__}")
        return m(node, fr)

    def e_Constant(self, n, fr):
        return n.value

    def e_Name(self, n, fr):
        ok, v = fr.lookup(n.id)
        if ok:
            return v
        if n.id == "NotImplemented":
            return Ext("NotImplemented")
        # a name the function assigns somewhere is a LOCAL of that function (Python scoping): reading it on a path where it is
        # not bound raises UnboundLocalError - it is never looked up as a global
        fi = fr.fi
        if fi is not None and fr.closure is None:
            loc = getattr(fi, "_local_names", None)
            if loc is None:
                loc = set(self.assigned_names(fi.node.body)) | {a.arg for a in fi.node.args.args + fi.node.args.kwonlyargs + fi.node.args.posonlyargs}
                for st in ast.walk(fi.node):
                    if isinstance(st, (ast.Global, ast.Nonlocal)):
                        loc -= set(st.names)
                    if isinstance(st, ast.ExceptHandler) and st.name:
                        loc.add(st.name)
                    if isinstance(st, (ast.Import, ast.ImportFrom)):
                        loc |= {(a.asname or a.name).split(".")[0] for a in st.names}
                fi._local_names = loc
            if n.id in loc:
                self.raise_("UnboundLocalError", f"cannot access local variable '{n.id}' where it is not associated with a value")
        return self.resolve_global(fr.module, n.id)

    def e_Attribute(self, n, fr):
        v = self.eval(n.value, fr)
        return self.getattr(v, n.attr, n)

    def e_Tuple(self, n, fr):
        out = []
        for e in n.elts:
            if isinstance(e, ast.Starred):
                out.extend(self.iterate(self.eval(e.value, fr)))
            else:
                out.append(self.eval(e, fr))
        return tuple(out)

    def e_List(self, n, fr):
        return list(self.e_Tuple(n, fr))

    def e_Set(self, n, fr):
        return list(self.e_Tuple(n, fr))  # sets of constants: order irrelevant for 'in'

    def e_Dict(self, n, fr):
        d = {}
        for k, v in zip(n.keys, n.values):
            if k is None:
                d.update(self.eval(v, fr))
            else:
                kk = self.eval(k, fr)
                d[self.hashable(kk)] = self.eval(v, fr)
        return d

    def hashable(self, k):
        if isinstance(k, (SV,)):
            raise Unsupported("symbolic dict key")
        if isinstance(k, list):
            return tuple(k)
        return k

    def e_JoinedStr(self, n, fr):
        parts = []
        sym = False
        for v in n.values:
            if isinstance(v, ast.Constant):
                parts.append(str(v.value))
            else:
                val = self.eval(v.value, fr)
                self._fparts[id(v)] = val
                if isinstance(val, (int, str, bool, float, bytes, type(None))) and v.format_spec is None and v.conversion == -1:
                    parts.append(str(val))
                else:
                    if v.format_spec is not None:
                        spec = self.eval(v.format_spec, fr)
                        if isinstance(val, (int, str, float)) and isinstance(spec, str):
                            try:
                                parts.append(format(val, spec))
                                continue
                            except Exception:
                                pass
                        if val is None and isinstance(spec, str) and spec and spec[-1] in "dXxbo":
                            self.raise_("TypeError", "unsupported format string passed to NoneType.__format__")
                    sym = True
        if sym:
            # value kept only when every interpolated part is itself a string (needed by path-building code);
            # otherwise the string VALUE is dropped (fresh symbol), sub-expressions were still evaluated
            zparts = []
            ok = True
            for v in n.values:
                if isinstance(v, ast.Constant):
                    zparts.append(z3.StringVal(str(v.value)))
                else:
                    val = self.eval_cached_fpart(v, fr)
                    if v.format_spec is None and v.conversion == -1 and self.kind_of(val) == "str":
                        zparts.append(self.z(val))
                    else:
                        ok = False
                        break
            if ok and zparts:
                return SV(z3.Concat(zparts) if len(zparts) > 1 else zparts[0], "str")
            return self.fresh("str", "fstr")
        return "".join(parts)

    def eval_cached_fpart(self, v, fr):
        return self._fparts.get(id(v))

    def e_FormattedValue(self, n, fr):
        return self.e_JoinedStr(ast.JoinedStr(values=[n]), fr)

    def e_UnaryOp(self, n, fr):
        v = self.eval(n.operand, fr)
        if isinstance(n.op, ast.Not):
            return self._wrapb(self.neg(self.truth(v)))
        if isinstance(n.op, ast.USub):
            if isinstance(v, SV):
                return SV(-v.e, v.k)
            return -v
        if isinstance(n.op, ast.UAdd):
            return v
        if isinstance(n.op, ast.Invert) and isinstance(v, int):
            return ~v
        raise Unsupported("unary op")

    def _wrapb(self, t):
        if isinstance(t, bool):
            return t
        return SV(t, "bool")

    def e_BinOp(self, n, fr):
        a = self.eval(n.left, fr)
        b = self.eval(n.right, fr)
        return self.binop(n.op, a, b)

    def _boolop_symbolic(self, n, fr, first, is_and):
        """`a and b and ...` over symbolic Booleans without forking: the remaining operands are evaluated speculatively
        under the condition that makes them reachable; used only when that evaluation neither raises, forks nor has
        effects, and every operand is Boolean-valued.  Returns an SV bool or None."""
        vals = [first]
        npc, ndec, nnew, ntr = len(self.pc), len(self.decisions), len(self.new_prefixes), len(self.trace)
        self.solver.push()
        ok = True
        try:
            for e in n.values[1:]:
                t = self.truth(vals[-1])
                c = t if is_and else self.neg(t)
                if isinstance(c, bool):
                    if not c:
                        break
                else:
                    self.solver.add(c)
                    self.pc.append(c)
                v = self.eval(e, fr)
                if not (isinstance(v, bool) or (isinstance(v, SV) and v.k == "bool")):
                    ok = False
                    break
                vals.append(v)
            if len(self.decisions) != ndec or len(self.new_prefixes) != nnew or len(self.trace) != ntr:
                ok = False
        except (PyRaise, Unsupported, PathEnd):
            ok = False
        finally:
            self.solver.pop()
            del self.pc[npc:]
            del self.decisions[ndec:]
            del self.new_prefixes[nnew:]
            del self.trace[ntr:]
        if not ok:
            return None
        parts = [z3.BoolVal(x) if isinstance(x, bool) else x.e for x in vals]
        return SV(z3.And(parts) if is_and else z3.Or(parts), "bool")

    def e_BoolOp(self, n, fr):
        is_and = isinstance(n.op, ast.And)
        first = self.eval(n.values[0], fr)
        if isinstance(first, SV) and first.k == "bool" and not z3.is_true(z3.simplify(first.e)) and not z3.is_false(z3.simplify(first.e)):
            r = self._boolop_symbolic(n, fr, first, is_and)
            if r is not None:
                return r
        return self._boolop_forking(n, fr, first, is_and)

    def _boolop_forking(self, n, fr, first, is_and):
        v = None
        for i, e in enumerate(n.values):
            v = first if i == 0 else self.eval(e, fr)
            if i == len(n.values) - 1:
                return v
            t = self.branch(v, "boolop")
            if is_and and not t:
                return v
            if not is_and and t:
                return v
        return v

    def e_Compare(self, n, fr):
        left = self.eval(n.left, fr)
        res = None
        for i, (op, c) in enumerate(zip(n.ops, n.comparators)):
            right = self.eval(c, fr)
            t = self.compare(op, left, right)
            if len(n.ops) == 1:
                return self._wrapb(t)
            # chained: short circuit
            if i == len(n.ops) - 1:
                if res is None:
                    return self._wrapb(t)
            if not self.branch(self._wrapb(t), "cmpchain"):
                return False
            res = True
            left = right
        return True

    def e_IfExp(self, n, fr):
        if self.branch(self.eval(n.test, fr), "ifexp"):
            return self.eval(n.body, fr)
        return self.eval(n.orelse, fr)

    def e_Lambda(self, n, fr):
        return LambdaRef(n, fr)

    def e_Call(self, n, fr):
        # super()
        if isinstance(n.func, ast.Name) and n.func.id == "super" and not n.args:
            ok, selfv = fr.lookup("self")
            if not ok:
                ok, selfv = fr.lookup("cls")
            return SuperRef(selfv, fr.self_cls)
        if isinstance(n.func, ast.Name) and n.func.id == "cast" and len(n.args) == 2:
            # typing.cast(T, x) is x - but T IS evaluated: a bare name that exists only for the type checker (imported under
            # `if TYPE_CHECKING:`) is a NameError at run time (found by the native cross-check of Association.abort)
            t = n.args[0]
            if isinstance(t, ast.Name) and not fr.lookup(t.id)[0]:
                import builtins as _b
                mod = fr.module
                bound = (t.id in mod.functions or t.id in mod.classes or t.id in mod.assigns or t.id in mod.imports or hasattr(_b, t.id))
                if not bound:
                    self.raise_("NameError", f"name '{t.id}' is not defined")
            return self.eval(n.args[1], fr)
        # logging is dropped (A-LOG) but argument sub-expressions of f-strings are still evaluated
        if isinstance(n.func, ast.Attribute) and isinstance(n.func.value, ast.Name) \
                and n.func.value.id in self.cfg.log_names and not fr.lookup(n.func.value.id)[0]:
            for a in n.args:
                if isinstance(a, ast.JoinedStr):
                    self.eval(a, fr)
            return None
        f = self.eval(n.func, fr)
        args = []
        for a in n.args:
            if isinstance(a, ast.Starred):
                args.extend(self.iterate(self.eval(a.value, fr)))
            else:
                args.append(self.eval(a, fr))
        kwargs = {}
        for k in n.keywords:
            if k.arg is None:
                kwargs.update(self.eval(k.value, fr))
            else:
                kwargs[k.arg] = self.eval(k.value, fr)
        return self.call_value(f, args, kwargs, n)

    def e_Subscript(self, n, fr):
        v = self.eval(n.value, fr)
        if isinstance(n.slice, ast.Slice):
            lo = self.eval(n.slice.lower, fr) if n.slice.lower is not None else None
            hi = self.eval(n.slice.upper, fr) if n.slice.upper is not None else None
            st = self.eval(n.slice.step, fr) if n.slice.step is not None else None
            return self.slice(v, lo, hi, st)
        idx = self.eval(n.slice, fr)
        return self.index(v, idx)

    def index(self, v, idx):
        v = self.resolve_seq(v)
        if isinstance(idx, SV) and idx.k == "bool":
            idx = SV(z3.If(idx.e, 1, 0), "int")          # bool is an int subclass: xs[flag]
        if type(idx).__name__ == "SliceVal":
            return self.slice(v, idx.lo, idx.hi, idx.step)
        if isinstance(v, ByteArr):
            v = v.v
        if hasattr(v, "sym_index"):
            return v.sym_index(self, idx)
        if isinstance(v, dict):
            if isinstance(idx, SV):
                # lookup with symbolic key among concrete keys: fork per key
                keys = list(v.keys())
                for k in keys:
                    if self.branch(self._wrapb(self.eq(idx, k)), "dictkey"):
                        return v[k]
                self.raise_("KeyError", "symbolic key")
            k = self.hashable(idx)
            if k not in v:
                # keys that are symbolic values compare with the interpreted ==, not by object identity
                if hasattr(idx, "sym_eq") or (isinstance(idx, tuple) and any(hasattr(x, "sym_eq") or isinstance(x, SV) for x in idx)):
                    for kk in list(v.keys()):
                        t = self.eq(kk, idx)
                        if t is True or (not isinstance(t, bool) and self.branch(self._wrapb(t), "dictkey")):
                            return v[kk]
                self.raise_("KeyError", k)
            return v[k]
        if isinstance(v, (list, tuple, str, bytes, range)):
            if isinstance(idx, SV):
                n_ = len(v)
                for i in range(n_):
                    if self.branch(self._wrapb(z3.Or(idx.e == i, idx.e == i - n_)), "idx"):
                        return v[i]
                self.raise_("IndexError", "index out of range")
            try:
                return v[idx]
            except IndexError:
                self.raise_("IndexError", "index out of range")
            except TypeError as e:
                self.raise_("TypeError", str(e))
        if isinstance(v, SV) and v.k == "bytes":
            i = self._num(idx, "int")
            ln = z3.Length(v.e)
            if not self.valid(z3.And(i >= -ln, i < ln)):
                if self.branch(self._wrapb(z3.Or(i < -ln, i >= ln)), "idx"):
                    self.raise_("IndexError", "index out of range")
            j = z3.If(i < 0, i + ln, i)
            el = v.e[j]
            self.assume(z3.And(el >= 0, el <= 255))      # elements of a bytes value
            return SV(el, "int")
        if isinstance(v, SymSeq):
            i = self._num(idx, "int")
            if not self.valid(z3.And(i >= 0, i < v.length)):
                if self.branch(self._wrapb(z3.Or(i < -v.length, i >= v.length)), "idx"):
                    self.raise_("IndexError", "index out of range")
                if not self.valid(i >= 0):
                    raise Unsupported("negative index on symbolic sequence")
            return v.elem(i)
        if isinstance(v, Env):
            if self.cfg.env_call is not None:
                r = self.cfg.env_call(self, v, "__getitem__", [idx], {})
                if r is not NotImplemented:
                    return r
            key = ("item", repr(idx))
            if key not in v.data:
                v.data[key] = self.opaque(f"{v.path}[{idx!r}]"[:80], nonnull=True)
            return v.data[key]
        if isinstance(v, Obj):
            m = v.cls.find(self.repo, "__getitem__")
            if m and m[0] == "method":
                return self.call_func(m[1], [v, idx], {})
        if v is None:
            self.raise_("TypeError", "'NoneType' object is not subscriptable")
        if isinstance(v, (int, float)) or (isinstance(v, SV) and v.k in ("int", "real", "bool")):
            self.raise_("TypeError", "'int' object is not subscriptable")
        raise Unsupported(f"index on {type(v).__name__}")

    def slice(self, v, lo, hi, st):
        wrap = None
        if isinstance(v, ByteArr):
            v = v.v
            wrap = ByteArr
        if hasattr(v, "sym_slice"):
            r = v.sym_slice(self, lo, hi, st)
            return wrap(r) if wrap else r
        if isinstance(v, Env):
            if self.cfg.env_call is not None:
                r = self.cfg.env_call(self, v, "__getitem__", [("slice", lo, hi, st)], {})
                if r is not NotImplemented:
                    return r
            key = ("slice", repr(lo), repr(hi), repr(st))
            if key not in v.data:
                v.data[key] = Env(f"{v.path}[{lo!r}:{hi!r}]"[:80])
            return v.data[key]
        if st is not None and st != 1:
            if isinstance(v, (list, tuple, str, bytes)) and all(not isinstance(x, SV) for x in (lo, hi, st)):
                return v[lo:hi:st]
            raise Unsupported("slice step")
        if isinstance(v, (list, tuple, str, bytes)) and not isinstance(lo, SV) and not isinstance(hi, SV):
            r = v[lo:hi]
            return wrap(r) if wrap else r
        if isinstance(v, (int, float)) or (isinstance(v, SV) and v.k in ("int", "real", "bool")):
            self.raise_("TypeError", "'int' object is not subscriptable")
        if v is None:
            self.raise_("TypeError", "'NoneType' object is not subscriptable")
        if self.kind_of(v) in ("bytes", "str"):
            e = self.z(v)
            ln = z3.Length(e)
            a = self._clamp(lo, ln, 0)
            b = self._clamp(hi, ln, None)
            r = SV(z3.SubSeq(e, a, z3.If(b - a > 0, b - a, 0)) if self.kind_of(v) == "bytes"
                   else z3.SubString(e, a, z3.If(b - a > 0, b - a, 0)), self.kind_of(v))
            return wrap(r) if wrap else r
        raise Unsupported(f"slice on {type(v).__name__}")

    def _clamp(self, x, ln, default):
        if x is None:
            return z3.IntVal(0) if default == 0 else ln
        i = self._num(x, "int")
        i = z3.If(i < 0, z3.If(i + ln < 0, 0, i + ln), z3.If(i > ln, ln, i))
        return z3.simplify(i)

    def _symseq_comp(self, n, fr, kind):
        """comprehension over a symbolic-length sequence (single generator, no filter)"""
        from .symcoll import SymMap
        g = n.generators[0]
        it = self.resolve_seq(self.eval(g.iter, fr))
        if hasattr(it, "as_symseq"):
            it = it.as_symseq(self)
        if isinstance(it, Env) and len(n.generators) == 1 and kind in ("list", "dict") and not hasattr(it, "sym_iter"):
            # a comprehension over an OPAQUE iterable (content owned by the environment, e.g. vars(module).values()): the result
            # is an opaque collection - membership in it is a consistent unknown per queried value
            key = ("comp", id(n))
            if key not in it.data:
                it.data[key] = Env(f"comp-over({it.path})"[:80])
            return it.data[key]
        if not isinstance(it, SymSeq) or len(n.generators) != 1:
            return None
        if g.ifs:
            # filter: the result is a sub-sequence of unknown length 0..n; `selected(j)` is the index of its j-th element
            # and every selected element satisfies the filter (assumed when the element is read)
            if kind == "dict":
                # {k: v for ... if c}: the map built from the filtered (key, value) pairs
                pairs = self._symseq_comp(ast.ListComp(elt=ast.Tuple(elts=[n.key, n.value], ctx=ast.Load()), generators=n.generators), fr, "list")
                if pairs is None:
                    return None
                if isinstance(pairs, list):
                    return {self.hashable(k): v for k, v in pairs}
                self._fresh_n += 1
                return SymMap(self, f"map!{self._fresh_n}", pairs.length, lambda i: pairs.elem(i)[0], lambda i: pairs.elem(i)[1])
            if kind != "list":
                return None
            # the filter evaluated on a GENERIC element: concretely false for every element -> nothing is selected;
            # concretely true -> everything is
            self._fresh_n += 1
            gi = z3.Int(f"generic!{self._fresh_n}")
            npc, ndec, nnew, ntr = len(self.pc), len(self.decisions), len(self.new_prefixes), len(self.trace)
            generic = None
            self.solver.push()
            try:
                self.solver.add(z3.And(gi >= 0, gi < it.length))
                f2 = Frame(fr.fi, fr.module, fr)
                f2.self_cls = fr.self_cls
                self.assign(g.target, it.elem(gi), f2)
                ts = [self.truth(self.eval(c, f2)) for c in g.ifs]
                if all(isinstance(t, bool) for t in ts) and len(self.decisions) == ndec and len(self.trace) == ntr:
                    generic = all(ts)
            except (PyRaise, Unsupported, PathEnd):
                generic = None
            finally:
                self.solver.pop()
                del self.pc[npc:]
                del self.decisions[ndec:]
                del self.new_prefixes[nnew:]
                del self.trace[ntr:]
            if generic is False:
                return []
            if generic is True:
                return self._symseq_comp(ast.ListComp(elt=n.elt, generators=[ast.comprehension(target=g.target, iter=g.iter, ifs=[], is_async=0)]),
                                         fr, "list")
            self._fresh_n += 1
            tag = self._fresh_n
            m = self.fresh("int", f"count!{tag}")
            self.assume(z3.And(m.e >= 0, m.e <= it.length))
            sel = z3.Function(f"selected!{tag}", z3.IntSort(), z3.IntSort())

            def elem(j, sel=sel, m=m):
                self.assume(z3.Implies(z3.And(j >= 0, j < m.e), z3.And(sel(j) >= 0, sel(j) < it.length)))
                f2 = Frame(fr.fi, fr.module, fr)
                f2.self_cls = fr.self_cls
                self.assign(g.target, it.elem(sel(j)), f2)
                for c in g.ifs:
                    self.assume(self.truth(self.eval(c, f2)) if not isinstance(self.truth(self.eval(c, f2)), bool) else True)
                return self.eval(n.elt, f2)
            out = SymSeq(f"filtered!{tag}", m.e, elem)
            out.filter_of = it
            out.filter_ifs = g.ifs

            def cond_at(x, g=g):
                """truth of the filter for a given element value (for contracts that must know WHAT is counted)"""
                f2 = Frame(fr.fi, fr.module, fr)
                f2.self_cls = fr.self_cls
                self.assign(g.target, x, f2)
                ts = [self.truth(self.eval(c, f2)) for c in g.ifs]
                ts = [z3.BoolVal(t) if isinstance(t, bool) else t for t in ts]
                return z3.And(ts) if len(ts) > 1 else ts[0]
            out.filter_cond = cond_at
            self.ghost.setdefault("filtered", []).append(out)
            return out

        def at(expr):
            def f(i):
                f2 = Frame(fr.fi, fr.module, fr)
                f2.self_cls = fr.self_cls
                self.assign(g.target, it.elem(i), f2)
                return self.eval(expr, f2)
            return f
        self._fresh_n += 1
        if kind == "dict":
            return SymMap(self, f"map!{self._fresh_n}", it.length, at(n.key), at(n.value))
        return SymSeq(f"comp!{self._fresh_n}", it.length, at(n.elt))

    def _cond_comp(self, n, fr):
        """[x for x in xs if c(x)] over a concrete-length iterable whose filter is a symbolic Boolean per element, evaluated
        without forking: the result is a CondList (length and emptiness are symbolic sums / disjunctions)"""
        from .values import CondList
        if len(n.generators) != 1:
            return None
        g = n.generators[0]
        if len(g.ifs) != 1 or not (isinstance(n.elt, ast.Name) and isinstance(g.target, ast.Name) and n.elt.id == g.target.id):
            return None
        it = self.eval(g.iter, fr)
        if not hasattr(it, "sym_iter") or not getattr(it, "cond_comp", False):
            return None
        items = list(it.sym_iter(self))
        npc, ndec, nnew, ntr = len(self.pc), len(self.decisions), len(self.new_prefixes), len(self.trace)
        out = []
        try:
            for x in items:
                f2 = Frame(fr.fi, fr.module, fr)
                f2.self_cls = fr.self_cls
                self.assign(g.target, x, f2)
                t = self.truth(self.eval(g.ifs[0], f2))
                out.append((x, z3.BoolVal(t) if isinstance(t, bool) else t))
            if len(self.decisions) != ndec or len(self.trace) != ntr:
                raise Unsupported("filter forks or has effects")
        except (PyRaise, Unsupported, PathEnd):
            del self.pc[npc:]
            del self.decisions[ndec:]
            del self.new_prefixes[nnew:]
            del self.trace[ntr:]
            return None
        return CondList(out)

    def e_ListComp(self, n, fr):
        r = self._symseq_comp(n, fr, "list") if len(n.generators) == 1 else None
        if r is not None:
            return r
        r = self._cond_comp(n, fr)
        if r is not None:
            return r
        out = []
        self._comp(n.generators, 0, fr, lambda f2: out.append(self.eval(n.elt, f2)))
        return out

    def e_GeneratorExp(self, n, fr):
        return self.e_ListComp(n, fr)

    def e_SetComp(self, n, fr):
        return self.e_ListComp(n, fr)

    def e_DictComp(self, n, fr):
        r = self._symseq_comp(n, fr, "dict") if len(n.generators) == 1 else None
        if r is not None:
            return r
        out = {}

        def add(f2):
            out[self.hashable(self.eval(n.key, f2))] = self.eval(n.value, f2)
        self._comp(n.generators, 0, fr, add)
        return out

    def _comp(self, gens, i, fr, emit):
        if i == len(gens):
            emit(fr)
            return
        g = gens[i]
        it = self.eval(g.iter, fr)
        for x in self.iterate(it):
            f2 = Frame(fr.fi, fr.module, fr)
            f2.self_cls = fr.self_cls
            self.assign(g.target, x, f2)
            if all(self.branch(self.eval(c, f2), "compif") for c in g.ifs):
                self._comp(gens, i + 1, f2, emit)

    def e_Starred(self, n, fr):
        raise Unsupported("starred")

    def e_NamedExpr(self, n, fr):
        v = self.eval(n.value, fr)
        self.assign(n.target, v, fr)
        return v

    def e_Yield(self, n, fr):
        raise Unsupported("yield used as a sub-expression")

    # ------------------------------------------------------------------ iteration
    def iterate(self, it):
        """Python-level iterator over the interpreted iterable (finite, concrete shape)."""
        if isinstance(it, ByteArr):
            it = it.v
        if isinstance(it, (list, tuple, str, range, set, frozenset)):
            return list(it)
        if isinstance(it, bytes):
            return list(it)
        if isinstance(it, dict):
            return list(it.keys())
        if isinstance(it, GenObj):
            return self._iter_gen(it)
        if hasattr(it, "sym_iter"):
            return it.sym_iter(self)
        if isinstance(it, Obj):
            m = it.cls.find(self.repo, "__iter__")
            if m and m[0] == "method":
                return self.iterate(self.call_func(m[1], [it], {}))
        raise Unsupported(f"iteration over {type(it).__name__}")

    def _iter_gen(self, g):
        while True:
            ok, v = self.gen_next(g)
            if not ok:
                return
            yield v

    # ------------------------------------------------------------------ assignment
    def assign(self, target, v, fr):
        if isinstance(target, ast.Name):
            # closures: assignment is always local (nonlocal unsupported)
            fr.locals[target.id] = v
        elif isinstance(target, ast.Attribute):
            o = self.eval(target.value, fr)
            self.setattr(o, target.attr, v)
        elif isinstance(target, (ast.Tuple, ast.List)):
            if isinstance(v, Env):
                if self.cfg.env_call is not None:
                    r = self.cfg.env_call(self, v, "__unpack__", [len(target.elts)], {})
                    if r is not NotImplemented:
                        v = r
                if isinstance(v, Env):
                    raise Unsupported(f"tuple-unpacking of opaque value {v.path}")
            if v is None:
                self.raise_("TypeError", "cannot unpack non-iterable NoneType object")
            if isinstance(v, (int, bool)) or (isinstance(v, SV) and v.k in ("int", "bool", "real")):
                self.raise_("TypeError", "cannot unpack non-iterable int object")
            vals = list(self.iterate(v))
            star = [i for i, t in enumerate(target.elts) if isinstance(t, ast.Starred)]
            if star:
                i = star[0]
                after = len(target.elts) - i - 1
                if len(vals) < len(target.elts) - 1:
                    self.raise_("ValueError", "not enough values to unpack")
                for t, x in zip(target.elts[:i], vals[:i]):
                    self.assign(t, x, fr)
                self.assign(target.elts[i].value, vals[i:len(vals) - after], fr)
                for t, x in zip(target.elts[i + 1:], vals[len(vals) - after:]):
                    self.assign(t, x, fr)
                return
            if len(vals) != len(target.elts):
                self.raise_("ValueError", f"unpack: expected {len(target.elts)} values, got {len(vals)}")
            for t, x in zip(target.elts, vals):
                self.assign(t, x, fr)
        elif isinstance(target, ast.Subscript):
            o = self.eval(target.value, fr)
            if isinstance(target.slice, ast.Slice):
                raise Unsupported("slice assignment")
            k = self.eval(target.slice, fr)
            self.setitem(o, k, v)
        else:
            raise Unsupported(f"assignment target {type(target).__name__}")

    def setitem(self, o, k, v):
        if hasattr(o, "sym_setitem"):
            return o.sym_setitem(self, k, v)
        if isinstance(o, dict):
            o[self.hashable(k)] = v
            return
        if isinstance(o, list):
            if isinstance(k, SV):
                raise Unsupported("list store at symbolic index")
            try:
                o[k] = v
            except IndexError:
                self.raise_("IndexError", "list assignment index out of range")
            return
        if isinstance(o, Env):
            if self.cfg.env_call is not None:
                r = self.cfg.env_call(self, o, "__setitem__", [k, v], {})
                if r is not NotImplemented:
                    return
            self.trace.append(Ev(f"{o.path}.__setitem__", (k, v)))
            return
        if isinstance(o, Obj):
            m = o.cls.find(self.repo, "__setitem__")
            if m and m[0] == "method":
                self.call_func(m[1], [o, k, v], {})
                return
        raise Unsupported(f"item assignment on {type(o).__name__}")

    # ------------------------------------------------------------------ statements (generators)
    def exec_block(self, stmts, fr):
        for s in stmts:
            yield from self.exec_stmt(s, fr)

    def exec_stmt(self, s, fr):
        # wall-clock budget of the task (DESIGN 10.6): checked every few hundred statements, so that neither a path that does
        # not end nor a path tree that does not end can keep a check running; exceeding it makes the TASK undecided
        self._steps = getattr(self, "_steps", 0) + 1
        if self._steps % 256 == 0 and self.deadline is not None and _time.time() > self.deadline:
            raise BudgetExceeded(f"task time budget of {TASK_BUDGET_S} s exceeded")
        m = getattr(self, "s_" + type(s).__name__, None)
        if m is None:
            raise Unsupported(f"statement {type(s).__name__}")
        r = m(s, fr)
        if r is not None:
            yield from r

    def s_Pass(self, s, fr):
        return None

    def s_Global(self, s, fr):
        raise Unsupported("global statement")

    def s_Nonlocal(self, s, fr):
        raise Unsupported("nonlocal statement")

    def s_Import(self, s, fr):
        for a in s.names:
            fr.locals[a.asname or a.name.split(".")[0]] = ModRef(a.name) if a.name.startswith("pynetdicom") else Ext(a.name)

    def s_ImportFrom(self, s, fr):
        for a in s.names:
            mod = s.module or ""
            fr.locals[a.asname or a.name] = self.module_attr(mod, a.name)

    def s_Expr(self, s, fr):
        if isinstance(s.value, ast.Yield):
            v = self.eval(s.value.value, fr) if s.value.value is not None else None
            return self._yield(v)
        if isinstance(s.value, ast.YieldFrom):
            return self._yield_from(self.eval(s.value.value, fr))
        self.eval(s.value, fr)
        return None

    def _yield(self, v):
        yield v

    def _yield_from(self, it):
        for v in self.iterate(it):
            yield v

    def s_Assign(self, s, fr):
        if isinstance(s.value, ast.Yield):
            return self._assign_yield(s, fr)
        v = self.eval(s.value, fr)
        for t in s.targets:
            self.assign(t, v, fr)
        return None

    def _assign_yield(self, s, fr):
        v = self.eval(s.value.value, fr) if s.value.value is not None else None
        sent = yield v
        for t in s.targets:
            self.assign(t, sent, fr)

    def s_AnnAssign(self, s, fr):
        if s.value is not None:
            self.assign(s.target, self.eval(s.value, fr), fr)
        return None

    def s_AugAssign(self, s, fr):
        t = s.target
        if isinstance(t, ast.Name):
            cur = self.eval(t, fr)
            if isinstance(cur, ByteArr) and isinstance(s.op, ast.Add):
                cur.v = self.binop(s.op, cur.v, self.eval(s.value, fr))
                return None
            if isinstance(cur, list) and isinstance(s.op, ast.Add):
                cur.extend(self.iterate(self.eval(s.value, fr)))
                return None
            fr.locals[t.id] = self.binop(s.op, cur, self.eval(s.value, fr))
        elif isinstance(t, ast.Attribute):
            o = self.eval(t.value, fr)
            cur = self.getattr(o, t.attr)
            self.setattr(o, t.attr, self.binop(s.op, cur, self.eval(s.value, fr)))
        elif isinstance(t, ast.Subscript):
            o = self.eval(t.value, fr)
            k = self.eval(t.slice, fr)
            cur = self.index(o, k)
            self.setitem(o, k, self.binop(s.op, cur, self.eval(s.value, fr)))
        else:
            raise Unsupported("augassign target")
        return None

    def s_Delete(self, s, fr):
        for t in s.targets:
            if isinstance(t, ast.Name):
                fr.locals.pop(t.id, None)
            elif isinstance(t, ast.Attribute):
                o = self.eval(t.value, fr)
                self.delattr(o, t.attr)
            elif isinstance(t, ast.Subscript):
                o = self.eval(t.value, fr)
                k = self.eval(t.slice, fr)
                if hasattr(o, "sym_delitem"):
                    o.sym_delitem(self, k)
                elif isinstance(o, dict):
                    if self.hashable(k) not in o:
                        self.raise_("KeyError", k)
                    del o[self.hashable(k)]
                elif isinstance(o, Env):
                    self.trace.append(Ev(f"{o.path}.__delitem__", (k,)))
                else:
                    raise Unsupported("del subscript")
            else:
                raise Unsupported("del target")
        return None

    def delattr(self, o, name):
        if hasattr(o, "sym_delattr"):
            return o.sym_delattr(self, name)
        if isinstance(o, Obj):
            if name in o.fields:
                del o.fields[name]
                return
            self.raise_("AttributeError", name)
        if isinstance(o, Env):
            self.trace.append(Ev("delattr", (o.path, name)))
            o.attrs.pop(name, None)
            return
        raise Unsupported("delattr")

    def s_Return(self, s, fr):
        raise ReturnSig(self.eval(s.value, fr) if s.value is not None else None)

    def s_Break(self, s, fr):
        raise BreakSig()

    def s_Continue(self, s, fr):
        raise ContinueSig()

    def s_Assert(self, s, fr):
        if not self.branch(self.eval(s.test, fr), "assert"):
            self.raise_("AssertionError")
        return None

    def s_Raise(self, s, fr):
        if s.exc is None:
            ok, cur = fr.lookup("__current_exc__")
            if not ok or cur is None:
                self.raise_("RuntimeError", "No active exception to reraise")
            raise PyRaise(cur)
        v = self.eval(s.exc, fr)
        if isinstance(v, ExcVal):
            raise PyRaise(v)
        if isinstance(v, Ext):
            raise PyRaise(ExcVal(canon_exc(v.name), ()))
        if isinstance(v, ClassRef):
            raise PyRaise(self.instantiate(v.ci, [], {}))
        if isinstance(v, Env):
            raise PyRaise(ExcVal("Exception", (v,)))
        raise Unsupported(f"raise of {type(v).__name__}")

    def _speculate_logs(self, cond, stmts, fr):
        """evaluate the f-string arguments of a log-only block under `cond` without forking the path; returns False if
        that evaluation raises or needs a fork (then the caller forks normally)"""
        fstrs = [a for st in stmts if isinstance(st, ast.Expr) for a in st.value.args if isinstance(a, ast.JoinedStr)]
        if not fstrs:
            return True
        if isinstance(cond, bool):
            if not cond:
                return True
        npc, ndec, nnew, ntr = len(self.pc), len(self.decisions), len(self.new_prefixes), len(self.trace)
        self.solver.push()
        ok = True
        try:
            if not isinstance(cond, bool):
                self.solver.add(cond)
                self.pc.append(cond)
            for f in fstrs:
                self.eval(f, fr)
            if len(self.decisions) != ndec or len(self.new_prefixes) != nnew or len(self.trace) != ntr:
                ok = False
        except (PyRaise, Unsupported, PathEnd):
            ok = False
        finally:
            self.solver.pop()
            del self.pc[npc:]
            del self.decisions[ndec:]
            del self.new_prefixes[nnew:]
            del self.trace[ntr:]
        return ok

    def _log_only(self, stmts, fr, allow_fstr=False):
        for st in stmts:
            if isinstance(st, ast.Pass):
                continue
            if isinstance(st, ast.Expr) and isinstance(st.value, ast.Call) and isinstance(st.value.func, ast.Attribute) \
                    and isinstance(st.value.func.value, ast.Name) and st.value.func.value.id in self.cfg.log_names \
                    and not fr.lookup(st.value.func.value.id)[0]:
                continue
            return False
        return True

    def s_If(self, s, fr):
        if self._log_only(s.body, fr) and self._log_only(s.orelse, fr):
            # both arms only log (pure-block elision, DESIGN A.2): evaluate the test (it may raise) and the log
            # arguments of each arm under its condition, without forking the path
            t = self.truth(self.eval(s.test, fr))
            nt = self.neg(t)
            if self._speculate_logs(t, s.body, fr) and self._speculate_logs(nt, s.orelse, fr):
                return None
            if self.branch(self._wrapb(t), "if"):
                return self.exec_block(s.body, fr)
            return self.exec_block(s.orelse, fr)
        if self.branch(self.eval(s.test, fr), "if"):
            return self.exec_block(s.body, fr)
        return self.exec_block(s.orelse, fr)

    def s_FunctionDef(self, s, fr):
        fi = FuncInfo(fr.module, s, None, (fr.fi.qualname.split(":")[1] + "." if fr.fi else "") + s.name)
        fr.locals[s.name] = FuncRef(fi, None, closure=fr)
        return None

    def s_With(self, s, fr):
        return self._with(s, 0, fr)

    def _with(self, s, i, fr):
        if i == len(s.items):
            yield from self.exec_block(s.body, fr)
            return
        item = s.items[i]
        cm = self.eval(item.context_expr, fr)
        # __enter__
        if isinstance(cm, GenObj):
            ok, val = self.gen_next(cm)
            if not ok:
                self.raise_("RuntimeError", "generator didn't yield")
        elif isinstance(cm, Env):
            val = self.call_value(self.getattr(cm, "__enter__"), [], {})
        elif isinstance(cm, Obj):
            val = self.call_value(self.getattr(cm, "__enter__"), [], {})
        elif hasattr(cm, "sym_enter"):
            val = cm.sym_enter(self)
        else:
            raise Unsupported(f"with on {type(cm).__name__}")
        if item.optional_vars is not None:
            self.assign(item.optional_vars, val, fr)
        try:
            yield from self._with(s, i + 1, fr)
        except PyRaise as pr:
            if self._cm_exit(cm, pr.exc):
                return
            raise
        except (ReturnSig, BreakSig, ContinueSig):
            self._cm_exit(cm, None)
            raise
        else:
            self._cm_exit(cm, None)

    def _cm_exit(self, cm, exc) -> bool:
        """returns True if the exception is suppressed"""
        if isinstance(cm, GenObj):
            if exc is None:
                ok, _ = self.gen_next(cm)
                if ok:
                    self.raise_("RuntimeError", "generator didn't stop")
                return False
            try:
                ok, _ = self.gen_throw(cm, exc)
            except PyRaise as pr:
                if pr.exc is exc:
                    return False
                raise
            if ok:
                self.raise_("RuntimeError", "generator didn't stop after throw()")
            return True   # generator swallowed the exception
        if isinstance(cm, (Env, Obj)):
            r = self.call_value(self.getattr(cm, "__exit__"), [exc, exc, None] if exc is not None else [None, None, None], {})
            if exc is None:
                return False
            if isinstance(cm, Env):
                return False   # environment context managers (locks, files) never swallow
            return self.branch(r, "cm_exit")
        if hasattr(cm, "sym_exit"):
            return cm.sym_exit(self, exc)
        raise Unsupported("with exit")

    def s_Try(self, s, fr):
        try:
            try:
                yield from self.exec_block(s.body, fr)
            except PyRaise as pr:
                handled = False
                for h in s.handlers:
                    if h.type is None:
                        match = True
                    else:
                        ht = self.eval(h.type, fr)
                        match = self.exc_isinstance(pr.exc, ht)
                    if match:
                        handled = True
                        old = fr.locals.get("__current_exc__")
                        fr.locals["__current_exc__"] = pr.exc
                        if h.name:
                            fr.locals[h.name] = pr.exc
                        try:
                            yield from self.exec_block(h.body, fr)
                        finally:
                            fr.locals["__current_exc__"] = old
                        break
                if not handled:
                    raise
            else:
                yield from self.exec_block(s.orelse, fr)
        except (PyRaise, ReturnSig, BreakSig, ContinueSig):
            # finally on abnormal exit; a control transfer inside finally overrides (Python semantics)
            yield from self.exec_block(s.finalbody, fr)
            raise
        else:
            yield from self.exec_block(s.finalbody, fr)

    # ------------------------------------------------------------------ loops
    def loop_ordinal(self, fr, node):
        fi = fr.fi
        if fi is None:
            return None
        key = id(fi.node)
        if key not in self._loop_ord_cache:
            loops = [n for n in ast.walk(fi.node) if isinstance(n, (ast.For, ast.While))]
            loops.sort(key=lambda n: (n.lineno, n.col_offset))
            self._loop_ord_cache[key] = {id(n): i for i, n in enumerate(loops)}
        return self._loop_ord_cache[key].get(id(node))

    def loop_spec(self, fr, node):
        if fr.fi is None:
            return None
        k = self.loop_ordinal(fr, node)
        return self.cfg.loop_specs.get((fr.fi.qualname, k))

    @staticmethod
    def assigned_names(body):
        names = []
        for st in body:
            for n in ast.walk(st):
                if isinstance(n, ast.Name) and isinstance(n.ctx, ast.Store) and n.id not in names:
                    names.append(n.id)
        return names

    def s_While(self, s, fr):
        spec = self.loop_spec(fr, s)
        if spec is not None:
            return self._while_spec(s, fr, spec)
        return self._while_unroll(s, fr)

    def _while_unroll(self, s, fr):
        n = 0
        while True:
            if not self.branch(self.eval(s.test, fr), "while"):
                yield from self.exec_block(s.orelse, fr)
                return
            n += 1
            if n > 64:
                raise Unsupported(f"while loop without invariant in {fr.fi.qualname if fr.fi else '?'} did not terminate in 64 iterations")
            try:
                yield from self.exec_block(s.body, fr)
            except BreakSig:
                return
            except ContinueSig:
                continue

    def _while_spec(self, s, fr, spec: LoopSpec):
        q = fr.fi.qualname
        k = self.loop_ordinal(fr, s)
        base = f"{self.cfg.ob_prefix}{q}/loop{k}"
        self.ob(f"{base}/invariant-on-entry", spec.invariant(self, fr))
        names = spec.modifies_locals if spec.modifies_locals is not None else self.assigned_names(s.body)
        for nm in names:
            ok, cur = fr.lookup(nm)
            if ok:
                fr.locals[nm] = self.fresh_like(cur, nm)
        spec.havoc(self, fr)
        self.assume(spec.invariant(self, fr))
        if not self.branch(self.eval(s.test, fr), "while"):
            spec.on_exit(self, fr)
            yield from self.exec_block(s.orelse, fr)
            return
        v0 = spec.variant(self, fr)
        try:
            yield from self.exec_block(s.body, fr)
        except BreakSig:
            return
        except ContinueSig:
            pass
        self.ob(f"{base}/invariant-preserved", spec.invariant(self, fr))
        if v0 is not None:
            v1 = spec.variant(self, fr)
            self.ob(f"{base}/variant-decreases", z3.And(self._num(v0, "int") >= 0,
                                                        self._num(v1, "int") < self._num(v0, "int"))
                    if not (isinstance(v0, int) and isinstance(v1, int)) else (0 <= v0 and v1 < v0))
        spec.after_body(self, fr)
        raise PathEnd()

    def s_For(self, s, fr):
        if self._log_only(s.body, fr) and not s.orelse and \
                not any(isinstance(a, ast.JoinedStr) for st in s.body if isinstance(st, ast.Expr) for a in st.value.args):
            self.eval(s.iter, fr)      # a loop that only logs: pure-block elision (A-LOG)
            return None
        it = self.resolve_seq(self.eval(s.iter, fr))
        if hasattr(it, "as_symseq"):
            it = it.as_symseq(self)
        spec = self.loop_spec(fr, s)
        if spec is not None and getattr(spec, "skip", False):
            # abstracted loop: the contract declares (and checks syntactically) that the body only touches state
            # the property does not depend on; the body is not executed, declared locals are havocked
            k = self.loop_ordinal(fr, s)
            self.ob(f"{self.cfg.ob_prefix}{fr.fi.qualname}/loop{k}/frame:{spec.frame_name}", bool(spec.frame_ok(self, s, fr)),
                    detail="syntactic frame check of an abstracted loop")
            for nm in self.assigned_names(s.body + [ast.Assign(targets=[s.target], value=ast.Constant(None))]):
                fr.locals[nm] = self.opaque(nm, nonnull=False)
            spec.havoc(self, fr)
            return None
        if hasattr(it, "sym_for"):
            return it.sym_for(self, s, fr, spec)
        if hasattr(it, "sym_next") and spec is not None:
            return self._for_iterator(s, fr, it, spec)
        if isinstance(it, SymSeq):
            return self._for_symseq(s, fr, it, spec)
        return self._for_concrete(s, fr, it)

    def _for_concrete(self, s, fr, it):
        n = 0
        for x in self.iterate(it):
            n += 1
            if n > UNROLL_LIMIT:
                raise Unsupported("for loop too long to unroll")
            self.assign(s.target, x, fr)
            try:
                yield from self.exec_block(s.body, fr)
            except BreakSig:
                return
            except ContinueSig:
                continue
        yield from self.exec_block(s.orelse, fr)

    def for_stream(self, s, fr, spec, next_elem, name="stream"):
        """Inductive treatment of `for x in <adversarial stream>`: the stream may end at any point or produce another
        element (next_elem(I, index) builds it, forking over its kinds).  One arbitrary iteration is executed."""
        if spec is None:
            raise Unsupported(f"for over {name} without loop contract in {fr.fi.qualname}")
        q = fr.fi.qualname
        k = self.loop_ordinal(fr, s)
        base = f"{self.cfg.ob_prefix}{q}/loop{k}"
        idx_name = f"__idx{k}"
        fr.locals[idx_name] = 0
        self.ob(f"{base}/invariant-on-entry", spec.invariant(self, fr))
        names = spec.modifies_locals if spec.modifies_locals is not None else self.assigned_names(s.body)
        for nm in names:
            ok, cur = fr.lookup(nm)
            if ok:
                fr.locals[nm] = self.fresh_like(cur, nm)
        i = self.fresh("int", "i")
        self.assume(i.e >= 0)
        fr.locals[idx_name] = i
        spec.havoc(self, fr)
        self.assume(spec.invariant(self, fr))
        if self.choose(2, "stream continues") == 1:
            spec.on_exit(self, fr)
            yield from self.exec_block(s.orelse, fr)
            return
        x = next_elem(self, i)
        self.assign(s.target, x, fr)
        try:
            yield from self.exec_block(s.body, fr)
        except BreakSig:
            return
        except ContinueSig:
            pass
        fr.locals[idx_name] = SV(i.e + 1, "int")
        tag = getattr(spec, "ob_tag", None)
        self.ob(f"{base}/invariant-preserved{tag(self, fr) if tag else ''}", spec.invariant(self, fr))
        spec.after_body(self, fr)
        raise PathEnd()

    def _for_iterator(self, s, fr, it, spec):
        """`for x in <iterator under contract>` (an object with sym_next, e.g. a generator summarised by its contract): one
        arbitrary iteration - the loop ends when next() raises StopIteration"""
        q = fr.fi.qualname
        k = self.loop_ordinal(fr, s)
        base = f"{self.cfg.ob_prefix}{q}/loop{k}"
        idx_name = f"__idx{k}"
        fr.locals[idx_name] = 0
        self.ob(f"{base}/invariant-on-entry", spec.invariant(self, fr))
        names = spec.modifies_locals if spec.modifies_locals is not None else self.assigned_names(s.body)
        for nm in names:
            ok, cur = fr.lookup(nm)
            if ok:
                fr.locals[nm] = self.fresh_like(cur, nm)
        i = self.fresh("int", "i")
        self.assume(i.e >= 0)
        fr.locals[idx_name] = i
        spec.seq = it
        spec.havoc(self, fr)
        self.assume(spec.invariant(self, fr))
        try:
            x = it.sym_next(self, None)
        except PyRaise as pr:
            if pr.exc.cls_name != "StopIteration":
                raise
            spec.on_exit(self, fr)
            yield from self.exec_block(s.orelse, fr)
            return
        self.assign(s.target, x, fr)
        try:
            yield from self.exec_block(s.body, fr)
        except BreakSig:
            return
        except ContinueSig:
            pass
        fr.locals[idx_name] = SV(i.e + 1, "int")
        self.ob(f"{base}/invariant-preserved", spec.invariant(self, fr))
        spec.after_body(self, fr)
        raise PathEnd()

    def _for_symseq(self, s, fr, seq: SymSeq, spec):
        if spec is None:
            raise Unsupported(f"for over symbolic sequence without loop contract in {fr.fi.qualname}")
        q = fr.fi.qualname
        k = self.loop_ordinal(fr, s)
        base = f"{self.cfg.ob_prefix}{q}/loop{k}"
        idx_name = f"__idx{k}"
        fr.locals[idx_name] = 0
        self.ob(f"{base}/invariant-on-entry", spec.invariant(self, fr))
        names = spec.modifies_locals if spec.modifies_locals is not None else self.assigned_names(s.body + [ast.Expr(s.target)] if False else s.body)
        for nm in names:
            ok, cur = fr.lookup(nm)
            if ok:
                fr.locals[nm] = self.fresh_like(cur, nm)
        i = self.fresh("int", "i")
        fr.locals[idx_name] = i
        self.assume(z3.And(i.e >= 0, i.e <= seq.length))
        spec.seq = seq            # the sequence this loop ranges over (contracts may state WHICH one it must be)
        spec.havoc(self, fr)
        self.assume(spec.invariant(self, fr))
        if not self.branch(self._wrapb(i.e < seq.length), "for"):
            spec.on_exit(self, fr)
            yield from self.exec_block(s.orelse, fr)
            return
        self.assign(s.target, seq.elem(i.e), fr)
        try:
            yield from self.exec_block(s.body, fr)
        except BreakSig:
            return
        except ContinueSig:
            pass
        fr.locals[idx_name] = SV(i.e + 1, "int")
        self.ob(f"{base}/invariant-preserved", spec.invariant(self, fr))
        spec.after_body(self, fr)
        raise PathEnd()

    # ------------------------------------------------------------------ entry points
    def run_function(self, fi: FuncInfo, args, kwargs=None):
        """Execute fi on this path. Returns ('return', value) or ('raise', ExcVal).  Generators are
        returned as GenObj (drive them with gen_next)."""
        try:
            v = self.call_func(fi, args, kwargs or {})
            return ("return", v)
        except PyRaise as pr:
            return ("raise", pr.exc)


_PYBIN = {
    ast.Add: lambda a, b: a + b, ast.Sub: lambda a, b: a - b, ast.Mult: lambda a, b: a * b,
    ast.Div: lambda a, b: a / b, ast.FloorDiv: lambda a, b: a // b, ast.Mod: lambda a, b: a % b,
    ast.Pow: lambda a, b: a ** b, ast.BitAnd: lambda a, b: a & b, ast.BitOr: lambda a, b: a | b,
    ast.BitXor: lambda a, b: a ^ b, ast.LShift: lambda a, b: a << b, ast.RShift: lambda a, b: a >> b,
}
_PYCMP = {ast.Lt: lambda a, b: a < b, ast.LtE: lambda a, b: a <= b, ast.Gt: lambda a, b: a > b,
          ast.GtE: lambda a, b: a >= b}

_BUILTIN_NAMES = {
    "len", "isinstance", "issubclass", "hasattr", "getattr", "setattr", "int", "bool", "bytes", "bytearray", "str",
    "range", "enumerate", "sorted", "min", "max", "list", "tuple", "dict", "set", "frozenset", "zip", "any", "all",
    "iter", "next", "repr", "type", "id", "callable", "abs", "sum", "hex", "format", "print", "float", "object",
    "reversed", "map", "filter", "open", "property", "staticmethod", "classmethod", "ord", "chr", "divmod", "round",
    "memoryview", "delattr", "vars", "super", "slice", "hash",
}

"""Extraction of the real source: modules, classes, functions — re-read from /repo on every run.

Nothing is imported from pynetdicom; files are parsed with ``ast``.  What extraction drops is
listed in DESIGN.md §1.1(1): docstrings, annotations, ``cast``, ``if TYPE_CHECKING`` blocks,
comments, LOGGER calls (kept in the AST, treated as pure by the interpreter).
"""
from __future__ import annotations

import ast
import hashlib
import os

REPO_ROOT = os.environ.get("VERIF_REPO", "/repo")


class ExtractionError(Exception):
    pass


def _strip_doc(body):
    if body and isinstance(body[0], ast.Expr) and isinstance(getattr(body[0], "value", None), ast.Constant) \
            and isinstance(body[0].value.value, str):
        return body[1:] or [ast.Pass()]
    return body


def contains_yield(node) -> bool:
    """True if the function body contains a yield that belongs to this function."""
    stack = list(node.body)
    while stack:
        n = stack.pop()
        if isinstance(n, (ast.Yield, ast.YieldFrom)):
            return True
        if isinstance(n, (ast.FunctionDef, ast.AsyncFunctionDef, ast.Lambda, ast.ClassDef)):
            continue
        stack.extend(ast.iter_child_nodes(n))
    return False


class FuncInfo:
    def __init__(self, module: "ModuleInfo", node: ast.FunctionDef, cls: "ClassInfo | None", qual: str):
        self.module = module
        self.node = node
        self.cls = cls
        self.name = node.name
        self.qualname = f"{module.name}:{qual}"
        self.body = _strip_doc(node.body)
        self.is_generator = contains_yield(node)
        self.decorators = [ast.unparse(d) for d in node.decorator_list]
        self.is_static = "staticmethod" in self.decorators
        self.is_classmethod = "classmethod" in self.decorators
        self.is_contextmanager = any(d.endswith("contextmanager") for d in self.decorators)
        self._sha = None
        self.lineno = node.lineno
        self.end_lineno = node.end_lineno

    @property
    def sha256(self):
        # hash of the function's source lines (decorators excluded, as ast.get_source_segment would give them), lazily
        if self._sha is None:
            lines = self.module.lines
            seg = "".join(lines[self.node.lineno - 1:self.node.end_lineno])
            self._sha = hashlib.sha256(seg.encode()).hexdigest()
        return self._sha

    def describe(self):
        return {"function": self.qualname, "file": os.path.relpath(self.module.path, REPO_ROOT),
                "line": self.lineno, "sha256": self.sha256[:16]}

    def __repr__(self):
        return f"<Func {self.qualname}>"


class PropInfo:
    def __init__(self, name):
        self.name = name
        self.fget: FuncInfo | None = None
        self.fset: FuncInfo | None = None


class ClassInfo:
    def __init__(self, module: "ModuleInfo", node: ast.ClassDef):
        self.module = module
        self.node = node
        self.name = node.name
        self.qualname = f"{module.name}:{node.name}"
        self.base_exprs = node.bases
        self.methods: dict[str, FuncInfo] = {}
        self.props: dict[str, PropInfo] = {}
        self.attrs: dict[str, ast.expr] = {}
        self.ann_fields: list[str] = []      # annotated fields in order (NamedTuple / dataclass style)
        for st in _strip_doc(node.body):
            if isinstance(st, ast.FunctionDef):
                fi = FuncInfo(module, st, self, f"{node.name}.{st.name}")
                decs = fi.decorators
                if "property" in decs:
                    self.props.setdefault(st.name, PropInfo(st.name)).fget = fi
                    fi.qualname += ".fget"
                elif any(d.endswith(".setter") for d in decs):
                    self.props.setdefault(st.name, PropInfo(st.name)).fset = fi
                    fi.qualname += ".fset"
                else:
                    self.methods[st.name] = fi
            elif isinstance(st, ast.Assign):
                for t in st.targets:
                    if isinstance(t, ast.Name):
                        self.attrs[t.id] = st.value
            elif isinstance(st, ast.AnnAssign) and isinstance(st.target, ast.Name):
                self.ann_fields.append(st.target.id)
                if st.value is not None:
                    self.attrs[st.target.id] = st.value
        self._mro = None

    def bases(self, repo: "Repo"):
        out = []
        for b in self.base_exprs:
            r = None
            if isinstance(b, ast.Name):
                r = self.module.resolve_static(repo, b.id)
            if isinstance(r, ClassInfo):
                out.append(r)
            else:
                out.append(ast.unparse(b))  # external base, by name
        return out

    def mro(self, repo: "Repo"):
        """Linearisation: depth-first, left-to-right, duplicates removed (sufficient for the single
        inheritance used throughout pynetdicom; diamond shapes do not occur in files under contract)."""
        if self._mro is None:
            out = [self]
            for b in self.bases(repo):
                if isinstance(b, ClassInfo):
                    for c in b.mro(repo):
                        if c not in out:
                            out.append(c)
            self._mro = out
        return self._mro

    def external_bases(self, repo):
        out = []
        for c in self.mro(repo):
            for b in c.bases(repo):
                if isinstance(b, str):
                    out.append(b)
        return out

    def find(self, repo, name):
        """Look up a class-level member through the MRO.  Returns ('method', FuncInfo) |
        ('prop', PropInfo) | ('attr', (ClassInfo, expr)) | None"""
        for c in self.mro(repo):
            if name in c.methods:
                return ("method", c.methods[name])
            if name in c.props:
                return ("prop", c.props[name])
            if name in c.attrs:
                return ("attr", (c, c.attrs[name]))
        return None

    def is_subclass_of(self, repo, other) -> bool:
        if isinstance(other, ClassInfo):
            return other in self.mro(repo)
        return other in self.external_bases(repo) or other == self.name

    def __repr__(self):
        return f"<Class {self.qualname}>"


class ModuleInfo:
    def __init__(self, name: str, path: str):
        self.name = name
        self.path = path
        with open(path, encoding="utf-8") as fh:
            self.source = fh.read()
        self.lines = self.source.splitlines(True)
        self.tree = ast.parse(self.source, filename=path)
        self.functions: dict[str, FuncInfo] = {}
        self.classes: dict[str, ClassInfo] = {}
        self.imports: dict[str, tuple[str, str | None]] = {}   # local name -> (module, attr|None)
        self.assigns: dict[str, ast.expr] = {}
        self.assign_order: list[tuple[str, ast.stmt]] = []
        self._scan(self.tree.body)

    def _scan(self, body):
        for st in body:
            if isinstance(st, ast.FunctionDef):
                self.functions[st.name] = FuncInfo(self, st, None, st.name)
            elif isinstance(st, ast.ClassDef):
                self.classes[st.name] = ClassInfo(self, st)
            elif isinstance(st, ast.Import):
                for a in st.names:
                    local = a.asname or a.name.split(".")[0]
                    self.imports[local] = (a.name if a.asname else a.name.split(".")[0], None)
            elif isinstance(st, ast.ImportFrom):
                mod = st.module or ""
                if st.level:
                    base = self.name.rsplit(".", st.level)[0]
                    mod = f"{base}.{mod}" if mod else base
                for a in st.names:
                    self.imports[a.asname or a.name] = (mod, a.name)
            elif isinstance(st, ast.Assign):
                for t in st.targets:
                    if isinstance(t, ast.Name):
                        self.assigns[t.id] = st.value
                        self.assign_order.append((t.id, st))
                    elif isinstance(t, ast.Tuple) and isinstance(st.value, ast.Tuple) \
                            and len(t.elts) == len(st.value.elts):
                        for tt, vv in zip(t.elts, st.value.elts):
                            if isinstance(tt, ast.Name):
                                self.assigns[tt.id] = vv
            elif isinstance(st, ast.AnnAssign) and st.value is not None and isinstance(st.target, ast.Name):
                self.assigns[st.target.id] = st.value
            elif isinstance(st, ast.If):
                test = ast.unparse(st.test)
                if test == "TYPE_CHECKING":
                    continue  # dropped (DESIGN 1.1.1)
                self._scan(st.body)
                self._scan(st.orelse)
            elif isinstance(st, ast.Try):
                self._scan(st.body)
            elif isinstance(st, ast.Expr):
                # e.g. TABLE.update(OTHER): kept for the module-constant evaluator
                self.assign_order.append(("<expr>", st))

    def resolve_static(self, repo: "Repo", name: str):
        """Resolve a global name to FuncInfo/ClassInfo/('module', name)/('const', module, expr)/None."""
        if name in self.functions:
            return self.functions[name]
        if name in self.classes:
            return self.classes[name]
        if name in self.assigns:
            return ("const", self, self.assigns[name], name)
        if name in self.imports:
            mod, attr = self.imports[name]
            if mod.startswith("pynetdicom"):
                if attr is None:
                    return ("module", mod)
                # from pynetdicom import evt  -> evt is the module pynetdicom.events (alias in __init__)
                sub = repo.try_module(f"{mod}.{attr}")
                if sub is not None:
                    return ("module", sub.name)
                m = repo.try_module(mod)
                if m is not None:
                    if mod == "pynetdicom" and attr == "evt":
                        return ("module", "pynetdicom.events")
                    r = m.resolve_static(repo, attr)
                    if r is not None:
                        return r
                return ("external", f"{mod}.{attr}")
            if attr is None:
                return ("module", mod)
            return ("external", f"{mod}.{attr}")
        return None


class Repo:
    def __init__(self, root: str | None = None):
        self.root = root or REPO_ROOT
        self.modules: dict[str, ModuleInfo] = {}

    def _path(self, name: str):
        rel = name.replace(".", "/")
        p1 = os.path.join(self.root, rel + ".py")
        p2 = os.path.join(self.root, rel, "__init__.py")
        if os.path.isfile(p1):
            return p1
        if os.path.isfile(p2):
            return p2
        return None

    def try_module(self, name: str) -> ModuleInfo | None:
        if name in self.modules:
            return self.modules[name]
        p = self._path(name)
        if p is None:
            return None
        m = ModuleInfo(name, p)
        self.modules[name] = m
        return m

    def module(self, name: str) -> ModuleInfo:
        m = self.try_module(name)
        if m is None:
            raise ExtractionError(f"module not found: {name}")
        return m

    def cls(self, qual: str) -> ClassInfo:
        mod, name = qual.split(":")
        m = self.module(mod)
        if name not in m.classes:
            raise ExtractionError(f"class not found: {qual}")
        return m.classes[name]

    def func(self, qual: str) -> FuncInfo:
        """'pkg.mod:func' | 'pkg.mod:Class.method' | 'pkg.mod:Class.prop.fget' | '...fset'
        | 'pkg.mod:func.<nested>'"""
        mod, name = qual.split(":")
        m = self.module(mod)
        parts = name.split(".")
        if parts[0] in m.functions:
            fi = m.functions[parts[0]]
            for nested in parts[1:]:
                found = None
                for n in ast.walk(fi.node):
                    if isinstance(n, ast.FunctionDef) and n.name == nested and n is not fi.node:
                        found = n
                        break
                if found is None:
                    raise ExtractionError(f"nested function not found: {qual}")
                fi = FuncInfo(m, found, None, ".".join(parts))
            return fi
        if parts[0] in m.classes:
            ci = m.classes[parts[0]]
            if len(parts) == 2 and parts[1] in ci.methods:
                return ci.methods[parts[1]]
            if len(parts) == 3 and parts[1] in ci.props:
                p = ci.props[parts[1]]
                f = p.fget if parts[2] == "fget" else p.fset
                if f is not None:
                    return f
        raise ExtractionError(f"function not found: {qual}")

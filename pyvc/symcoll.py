"""Symbolic collections: maps built from symbolic-length sequences, sorted views (DESIGN §1.1-4)."""
from __future__ import annotations

import z3

from .values import SV, SymSeq, Unsupported, PyRaise, ExcVal, Ev


class SymMap:
    """dict built by a comprehension over a symbolic-length sequence: {key(i): val(i) for i < n}.

    Keys are assumed pairwise distinct unless `may_collide` (then the LAST entry wins in Python; lookups are
    refused).  Membership of a key k is a Boolean b_k together with a witness index w_k:
    b_k => 0 <= w_k < n and key(w_k) == k.  (b_k IS the truth value of `k in d`; specifications refer to it.)"""

    def __init__(self, I, name, n, key_at, val_at):
        self.I, self.name, self.n = I, name, n
        self.key_at, self.val_at = key_at, val_at
        self.queries = []        # (key value, b, w)

    def truth(self, I):
        return self.n > 0

    def sym_len(self, I):
        return SV(self.n, "int")

    def _query(self, I, k):
        for (k0, b, w) in self.queries:
            t = I.eq(k0, k)
            if t is True or (not isinstance(t, bool) and I.valid(t)):
                return b, w
        b = I.fresh("bool", f"in({self.name})")
        w = I.fresh("int", f"at({self.name})")
        keq = I.eq(self.key_at(w.e), k)
        keq = z3.BoolVal(keq) if isinstance(keq, bool) else keq
        I.assume(z3.Implies(b.e, z3.And(w.e >= 0, w.e < self.n, keq)))
        self.queries.append((k, b, w))
        return b, w

    def sym_contains(self, I, k):
        b, w = self._query(I, k)
        return b.e

    def sym_index(self, I, k):
        b, w = self._query(I, k)
        if not I.branch(b, "map-lookup"):
            raise PyRaise(ExcVal("KeyError", (k,)))
        return self.val_at(w.e)

    def witness(self, I, k):
        return self._query(I, k)

    def sym_method(self, I, name, args, kw):
        if name == "items":
            return SymSeq(f"{self.name}.items", self.n, lambda i: (self.key_at(i), self.val_at(i)))
        if name == "values":
            return SymSeq(f"{self.name}.values", self.n, lambda i: self.val_at(i))
        if name == "keys":
            return SymSeq(f"{self.name}.keys", self.n, lambda i: self.key_at(i))
        if name == "get":
            b, w = self._query(I, args[0])
            if I.branch(b, "map-get"):
                return self.val_at(w.e)
            return args[1] if len(args) > 1 else None
        return NotImplemented

    def sym_iter(self, I):
        raise Unsupported("iteration over a symbolic map outside a loop contract")


class SortedView:
    """result of sorted(seq, key=f): a permutation of seq ordered by f (assumed contract of sorted())"""

    def __init__(self, seq, key):
        self.seq, self.key = seq, key

    def truth(self, I):
        return self.seq.length > 0 if isinstance(self.seq, SymSeq) else bool(self.seq)

    def as_symseq(self, I):
        """the sorted result as a sequence: element i is seq[perm(i)] for an (uninterpreted) permutation"""
        if not isinstance(self.seq, SymSeq):
            raise Unsupported("sorted view of a composite sequence used as a sequence")
        if getattr(self, "_ss", None) is None:
            I._fresh_n += 1
            perm = z3.Function(f"perm!{I._fresh_n}", z3.IntSort(), z3.IntSort())
            seq = self.seq

            def elem(i):
                I.assume(z3.Implies(z3.And(i >= 0, i < seq.length), z3.And(perm(i) >= 0, perm(i) < seq.length)))
                return seq.elem(perm(i))
            self._ss = SymSeq(f"sorted({seq.name})", seq.length, elem, contains=seq.contains)
        return self._ss


class ConcatSeq:
    """concatenation of sequences (concrete lists and symbolic-length sequences), e.g. `xs + list(d.values())`"""

    def __init__(self, parts):
        self.parts = []
        for p in parts:
            if isinstance(p, ConcatSeq):
                self.parts.extend(p.parts)
            else:
                self.parts.append(p)

    def truth(self, I):
        ts = []
        for p in self.parts:
            if isinstance(p, (list, tuple)):
                if len(p) > 0:
                    return True
            elif isinstance(p, SymSeq):
                ts.append(p.length > 0)
        if not ts:
            return False
        return z3.Or(ts) if len(ts) > 1 else ts[0]

    def sym_binop(self, I, op, other, reflected):
        import ast as _ast
        if isinstance(op, _ast.Add) and isinstance(other, (list, tuple, SymSeq, ConcatSeq)):
            return ConcatSeq([other, self] if reflected else [self, other])
        return NotImplemented


class AbsMap:
    """a dict of unknown content: symbolic size n >= 0, membership `has(k)` is an uninterpreted Boolean per queried key
    (memoised by key), values are opaque per key; stores and deletes are recorded (and reflected in later lookups of
    the same key).  Used for dicts owned by the environment (accepted contexts, pending C-CANCELs)."""

    def __init__(self, I, name, value_of=None):
        self.I, self.name = I, name
        self.n = I.fresh("int", f"len({name})").e
        I.assume(self.n >= 0)
        self.q = []          # (key, z3 Bool member, value)
        self.stores, self.deletes = [], []
        self.value_of = value_of

    def _find(self, I, k):
        for ent in self.q:
            t = I.eq(ent[0], k)
            if t is True or (not isinstance(t, bool) and I.valid(t)):
                return ent
        b = I.fresh("bool", f"in({self.name})")
        v = self.value_of(I, k) if self.value_of else I.opaque(f"{self.name}[..]")
        ent = [k, b.e, v]
        self.q.append(ent)
        return ent

    def truth(self, I):
        return self.n > 0

    def sym_len(self, I):
        return SV(self.n, "int")

    def sym_contains(self, I, k):
        return self._find(I, k)[1]

    def sym_index(self, I, k):
        ent = self._find(I, k)
        if not I.branch(SV(ent[1], "bool") if not isinstance(ent[1], bool) else ent[1], "map-lookup"):
            raise PyRaise(ExcVal("KeyError", (k,)))
        return ent[2]

    def sym_setitem(self, I, k, v):
        ent = self._find(I, k)
        self.stores.append((k, v, ent[1]))
        self.n = z3.If(ent[1] if not isinstance(ent[1], bool) else z3.BoolVal(ent[1]), self.n, self.n + 1)
        ent[1] = True
        ent[2] = v

    def sym_delitem(self, I, k):
        ent = self._find(I, k)
        if not I.branch(SV(ent[1], "bool") if not isinstance(ent[1], bool) else ent[1], "map-del"):
            raise PyRaise(ExcVal("KeyError", (k,)))
        self.deletes.append(k)
        self.n = self.n - 1
        ent[1] = False

    def sym_method(self, I, name, args, kw):
        if name == "get":
            ent = self._find(I, args[0])
            if I.branch(SV(ent[1], "bool") if not isinstance(ent[1], bool) else ent[1], "map-get"):
                return ent[2]
            return args[1] if len(args) > 1 else None
        if name == "values":
            return SymSeq(f"{self.name}.values", self.n, lambda i: I.opaque(f"{self.name}.value"))
        if name == "keys":
            return SymSeq(f"{self.name}.keys", self.n, lambda i: I.opaque(f"{self.name}.key"))
        if name == "items":
            key = z3.Function(f"key({self.name})", z3.IntSort(), z3.IntSort())
            return SymSeq(f"{self.name}.items", self.n, lambda i: (SV(key(i), "int"), I.opaque(f"{self.name}.value")))
        if name == "clear":
            self.n = z3.IntVal(0)
            for ent in self.q:
                ent[1] = False
            self.cleared = True
            I.trace.append(Ev(f"{self.name}.clear", (None, None, "cleared-in-place")))
            return None
        return NotImplemented

"""Symbolic collections: maps built from symbolic-length sequences, sorted views (DESIGN §1.1-4)."""
from __future__ import annotations

import z3

from .values import SV, SymSeq, Unsupported, PyRaise, ExcVal


class SymMap:
    """dict built by a comprehension over a symbolic-length sequence: {key(i): val(i) for i < n}.

    Keys are assumed pairwise distinct unless `may_collide` (then the LAST entry wins in Python; lookups are
    refused).  Membership of a key k is a Boolean b_k together with a witness index w_k:
    b_k => 0 <= w_k < n and key(w_k) == k.  (b_k IS the truth value of `k in d`; specifications refer to it.)"""

    def __init__(self, I, name, n, key_at, val_at):
        self.I, self.name, self.n = I, name, n
        self.key_at, self.val_at = key_at, val_at
        self.queries = []        # (key value, b, w)

    def truth(self, I):
        return self.n > 0

    def sym_len(self, I):
        return SV(self.n, "int")

    def _query(self, I, k):
        for (k0, b, w) in self.queries:
            t = I.eq(k0, k)
            if t is True or (not isinstance(t, bool) and I.valid(t)):
                return b, w
        b = I.fresh("bool", f"in({self.name})")
        w = I.fresh("int", f"at({self.name})")
        keq = I.eq(self.key_at(w.e), k)
        keq = z3.BoolVal(keq) if isinstance(keq, bool) else keq
        I.assume(z3.Implies(b.e, z3.And(w.e >= 0, w.e < self.n, keq)))
        self.queries.append((k, b, w))
        return b, w

    def sym_contains(self, I, k):
        b, w = self._query(I, k)
        return b.e

    def sym_index(self, I, k):
        b, w = self._query(I, k)
        if not I.branch(b, "map-lookup"):
            raise PyRaise(ExcVal("KeyError", (k,)))
        return self.val_at(w.e)

    def witness(self, I, k):
        return self._query(I, k)

    def sym_method(self, I, name, args, kw):
        if name == "items":
            return SymSeq(f"{self.name}.items", self.n, lambda i: (self.key_at(i), self.val_at(i)))
        if name == "values":
            return SymSeq(f"{self.name}.values", self.n, lambda i: self.val_at(i))
        if name == "keys":
            return SymSeq(f"{self.name}.keys", self.n, lambda i: self.key_at(i))
        if name == "get":
            b, w = self._query(I, args[0])
            if I.branch(b, "map-get"):
                return self.val_at(w.e)
            return args[1] if len(args) > 1 else None
        return NotImplemented

    def sym_iter(self, I):
        raise Unsupported("iteration over a symbolic map outside a loop contract")


class SortedView:
    """result of sorted(seq, key=f): a permutation of seq ordered by f (assumed contract of sorted())"""

    def __init__(self, seq, key):
        self.seq, self.key = seq, key

    def truth(self, I):
        return self.seq.length > 0 if isinstance(self.seq, SymSeq) else bool(self.seq)


class ConcatSeq:
    """concatenation of sequences (concrete lists and symbolic-length sequences), e.g. `xs + list(d.values())`"""

    def __init__(self, parts):
        self.parts = []
        for p in parts:
            if isinstance(p, ConcatSeq):
                self.parts.extend(p.parts)
            else:
                self.parts.append(p)

    def truth(self, I):
        ts = []
        for p in self.parts:
            if isinstance(p, (list, tuple)):
                if len(p) > 0:
                    return True
            elif isinstance(p, SymSeq):
                ts.append(p.length > 0)
        if not ts:
            return False
        return z3.Or(ts) if len(ts) > 1 else ts[0]

    def sym_binop(self, I, op, other, reflected):
        import ast as _ast
        if isinstance(op, _ast.Add) and isinstance(other, (list, tuple, SymSeq, ConcatSeq)):
            return ConcatSeq([other, self] if reflected else [self, other])
        return NotImplemented

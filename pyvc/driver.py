"""Check driver: regenerate and discharge every obligation of one property from /repo's working tree.

exit 0  all obligations discharged (or only listed known findings failed)
exit 1  + 'VIOLATION property=<id> replay=<path>'   an obligation is refuted
exit 2  undecided (solver unknown, construct outside the subset, function not found, baseline
        obligation not regenerated)
exit 3  checker crash / zero obligations / engine self-check failed
"""
from __future__ import annotations

import argparse
import importlib
import json
import multiprocessing as mp
import os
import re
import sys
import time

VERIF = os.path.dirname(os.path.dirname(os.path.abspath(__file__)))
sys.path.insert(0, VERIF)

from pyvc.repo import Repo, REPO_ROOT  # noqa: E402
from pyvc import smt  # noqa: E402

_TASKS = []

GLOBAL_ASSUMPTIONS = [
    "A-SEM: the symbolic semantics of pyvc (DESIGN 1.1-1.2) is faithful to CPython 3.12 for the supported subset",
    "A-LOG: logging calls are pure and do not raise (LOGGER.* statements are dropped; f-string sub-expressions are still evaluated)",
    "A-ASSERT: assert statements execute (no python -O)",
    "A-EXC: only the raise sources of DESIGN 1.1(6) are considered (no MemoryError/RecursionError/KeyboardInterrupt)",
    "A-ALIAS: distinct parameters and freshly constructed objects do not alias; no monkey-patching of pynetdicom classes",
    "extraction drops docstrings, annotations, typing.cast, TYPE_CHECKING blocks, comments",
]


SHARD_FIRST = 24       # paths a shardable task explores before its remaining sub-trees are distributed
SHARD_BUDGET = 48      # paths per distributed job (its leftovers are re-queued)


def _run_task(i):
    t = _TASKS[i]
    repo = Repo()
    if getattr(t, "shard", False):
        return t.run(repo, budget=SHARD_FIRST)
    return t.run(repo)


def _run_shard(job):
    i, prefixes = job
    t = _TASKS[i]
    r = t.run(Repo(), start=prefixes, budget=SHARD_BUDGET)
    r["_task_index"] = i
    return r


def _merge(into, r):
    into["records"].extend(r["records"])
    for k in ("models", "summaries", "inlined"):
        into[k] = sorted(set(into[k]) | set(r[k]))
    for k in ("paths", "solver_ms", "queries", "wall_s"):
        into[k] += r[k]
    for k, v in r.get("recheck", {}).items():
        into.setdefault("recheck", {})[k] = into.get("recheck", {}).get(k, 0) + v
    if r["error"] and not into["error"]:
        into["error"] = r["error"]
    if r["undecided"] and not into["undecided"]:
        into["undecided"] = r["undecided"]


def run_all(jobs):
    """phase 1: every task (shardable ones with a small path budget); phase 2: the unexplored sub-trees of the shardable
    tasks, spread over the pool until none is left"""
    n = len(_TASKS)
    if jobs == 1:
        results = [_run_task(i) for i in range(n)]
        pending = [(i, [p]) for i, r in enumerate(results) for p in r.get("leftover", [])]
        while pending:
            job = pending.pop()
            r = _run_shard(job)
            _merge(results[job[0]], r)
            pending.extend((job[0], [p]) for p in r.get("leftover", []))
        return results
    ctx = mp.get_context("fork")
    with ctx.Pool(jobs) as pool:
        results = pool.map(_run_task, range(n), chunksize=1)
        pending = [(i, [p]) for i, r in enumerate(results) for p in r.get("leftover", [])]
        while pending:
            batch, pending = pending, []
            for r in pool.imap_unordered(_run_shard, batch, chunksize=1):
                i = r["_task_index"]
                _merge(results[i], r)
                pending.extend((i, [p]) for p in r.get("leftover", []))
    return results


def load_findings():
    p = os.path.join(VERIF, "known_findings.jsonl")
    out = []
    if os.path.exists(p):
        for line in open(p):
            line = line.strip()
            if line and not line.startswith("#"):
                out.append(json.loads(line))
    return out


def open_findings(prop):
    return [f for f in load_findings() if f.get("property") == prop and f.get("status") == "open"]


def claimed_level(mod, prop):
    """Level registered in MANIFEST.json (tools/gen_manifest.py) and written to the evidence file when the run confirms it.
    'proof' is claimed only for a property whose every obligation is expected to be discharged: a property with an open
    known finding has a refuted obligation on the unchanged tree, so it is not proved and is registered as 'other'."""
    level = getattr(mod, "LEVEL", "proof")
    if level == "proof" and open_findings(prop):
        return "other"
    return level


def finding_matches(f, prop, rec):
    if f.get("property") != prop or f.get("status") != "open":
        return False
    if f.get("obligation") != rec["id"]:
        return False
    return True


def _explanation(mod, ev_level, n_ob, discharged, known, violations, undec_obs, undecided, missing, errors):
    parts = []
    if getattr(mod, "EXPLANATION", ""):
        parts.append(mod.EXPLANATION)
    if ev_level == "proof":
        parts.append(f"all {n_ob} obligations generated from the current source were discharged")
        return " ".join(parts)
    parts.append(f"contract-based deductive check: {discharged} of {n_ob} obligations generated from the current source were "
                 f"discharged for all inputs (no bound).")
    if known:
        parts.append(f"{len(known)} obligation(s) are REFUTED and listed as open known findings in known_findings.jsonl - the "
                     f"property does not hold there, so the property as a whole is not proved on this tree: "
                     + "; ".join(o["id"] for o, _ in known) + ".")
    if violations:
        parts.append(f"{len(violations)} obligation(s) are refuted and NOT listed as known findings (VIOLATION): "
                     + "; ".join(o["id"] for o in violations) + ".")
    if undec_obs or undecided or missing:
        parts.append(f"undecided: {len(undec_obs)} obligation(s), {len(undecided)} task(s); baseline obligations not regenerated: "
                     f"{len(missing)}.")
    if errors:
        parts.append(f"{len(errors)} checker error(s).")
    if getattr(mod, "LEVEL", "proof") != "proof":
        parts.append("The claimed level is 'other' because part of the property is outside function contracts (see not_decided "
                     "and the level note in MANIFEST.json).")
    return " ".join(parts)


def sanitize(s):
    import hashlib
    t = re.sub(r"[^A-Za-z0-9_.-]+", "_", s)
    if len(t) > 150:
        t = t[:140] + "_" + hashlib.sha1(s.encode()).hexdigest()[:8]     # distinct obligations keep distinct replay files
    return t


def main(argv=None):
    ap = argparse.ArgumentParser()
    ap.add_argument("prop")
    ap.add_argument("--tier", default=os.environ.get("VERIF_TIER", "quick"))
    ap.add_argument("--write-baseline", action="store_true")
    ap.add_argument("--replay", default=None)
    ap.add_argument("--jobs", type=int, default=int(os.environ.get("VERIF_JOBS", "16")))
    ap.add_argument("--only", default=None, help="substring filter on task names (development)")
    ap.add_argument("-v", action="store_true")
    a = ap.parse_args(argv)
    prop = a.prop
    tier = "thorough" if a.tier == "thorough" else "quick"
    os.environ["VERIF_TIER"] = tier          # read by the interpreter (thorough: every discharged VC is re-checked by cvc5)
    from pyvc import interp as _interp
    _interp.RECHECK = tier == "thorough"
    seed = int(os.environ.get("VERIF_SEED", "0") or 0)
    t0 = time.time()
    # evidence and replay files of /verif describe /repo itself: a run against a scratch copy (VERIF_REPO, used by
    # tools/mut.sh and tools/confirm_seed.sh) writes them under VERIF_OUT (default: a directory under the system tmp dir)
    out_root = VERIF
    if os.path.realpath(REPO_ROOT) != "/repo" or os.environ.get("VERIF_OUT"):
        import tempfile
        out_root = os.environ.get("VERIF_OUT") or os.path.join(tempfile.gettempdir(), "verif-scratch-out")
    ev_path = os.path.join(out_root, "evidence", f"{prop}.json")
    os.makedirs(os.path.dirname(ev_path), exist_ok=True)

    try:
        mod = importlib.import_module(f"contracts.{prop}")
    except Exception as e:
        print(f"CHECKER-ERROR property={prop} cannot load contracts: {e!r}")
        import traceback
        traceback.print_exc()
        return 3

    if a.replay:
        info = json.load(open(a.replay))
        if hasattr(mod, "replay"):
            r = mod.replay(info.get("record", info))
            print(json.dumps(r, indent=1, default=str))
            return 1 if r.get("reproduced") else 0
        print("no replay available for this property")
        return 0

    global _TASKS
    try:
        _TASKS = list(mod.tasks(tier))
    except Exception as e:
        import traceback
        traceback.print_exc()
        print(f"CHECKER-ERROR property={prop} building tasks: {e!r}")
        return 3
    if a.only:
        _TASKS = [t for t in _TASKS if a.only in t.name]
    if not _TASKS:
        print(f"CHECKER-ERROR property={prop} zero tasks")
        return 3

    jobs = max(1, a.jobs if any(getattr(t, "shard", False) for t in _TASKS) else min(a.jobs, len(_TASKS)))
    results = run_all(jobs)

    alt_note = None
    if hasattr(mod, "postprocess") and not a.only:
        results, alt_note = mod.postprocess(results)

    # ------------------------------------------------------------------ aggregate
    obligations = {}   # id -> aggregated record
    errors, undecided = [], []
    functions, inlined, models, summaries = {}, set(), set(), set()
    paths = 0
    solver_ms = 0.0
    queries = 0
    backends = {}
    for res in results:
        if res["error"]:
            errors.append((res["task"], res["error"]))
        if res["undecided"]:
            undecided.append((res["task"], res["undecided"]))
        for f in res["functions"]:
            functions[f["function"]] = f
        inlined.update(res["inlined"])
        models.update(res["models"])
        summaries.update(res["summaries"])
        paths += res["paths"]
        solver_ms += res["solver_ms"]
        queries += res["queries"]
        for r in res["records"]:
            # a property whose argument is a composition over another property's contracts re-proves those obligations under its
            # own id (RELABEL = {"C15/": "C25/wire:"}): a change that breaks the borrowed contract is reported by both checks
            for src_pfx, dst_pfx in getattr(mod, "RELABEL", {}).items():
                if r["id"].startswith(src_pfx):
                    # RELABEL_ONLY = {"C10/": <regex>}: borrow only the obligations of that property the claim rests on
                    flt = getattr(mod, "RELABEL_ONLY", {}).get(src_pfx)
                    if flt is None or re.search(flt, r["id"]):
                        r = dict(r, id=dst_pfx + r["id"][len(src_pfx):])
                    break
            if not re.match(r"C\d\d/", r["id"]):
                errors.append((res["task"], f"obligation without property prefix: {r['id']}"))
            if not r["id"].startswith(prop + "/"):
                continue          # shared tasks also emit obligations of other properties
            cur = obligations.get(r["id"])
            rank = {"failed": 2, "undecided": 1, "discharged": 0}
            if cur is None:
                obligations[r["id"]] = dict(r, instances=1, task=res["task"], ms_total=r["ms"])
            else:
                cur["instances"] += 1
                cur["ms_total"] += r["ms"]
                if rank[r["status"]] > rank[cur["status"]]:
                    keep = {"instances": cur["instances"], "ms_total": cur["ms_total"]}
                    cur.clear()
                    cur.update(dict(r, task=res["task"], **keep))
            backends[r["backend"]] = backends.get(r["backend"], 0) + 1

    # obligations checked by a BOUNDED stand-in are reported (a failure is a violation with a concrete input) but never counted
    # among the discharged proof obligations
    bounded_obs = {k: o for k, o in obligations.items() if str(o["backend"]).startswith("bounded")}
    n_ob = len(obligations) - len(bounded_obs)
    failed = [o for o in obligations.values() if o["status"] == "failed"]
    undec_obs = [o for o in obligations.values() if o["status"] == "undecided"]
    discharged = n_ob - len([o for o in failed if o["id"] not in bounded_obs]) - len([o for o in undec_obs if o["id"] not in bounded_obs])

    # ------------------------------------------------------------------ baseline (vacuity guard a)
    base_path = os.path.join(VERIF, "baseline", f"{prop}.json")
    missing = []
    if a.write_baseline and not a.only:
        os.makedirs(os.path.dirname(base_path), exist_ok=True)
        json.dump({"property": prop, "obligations": sorted(obligations)}, open(base_path, "w"), indent=0)
    if os.path.exists(base_path) and not a.only:
        base = json.load(open(base_path))["obligations"]
        missing = [b for b in base if b not in obligations]

    # ------------------------------------------------------------------ findings / replay
    rdir0 = os.path.join(out_root, "replays", prop)
    if os.path.isdir(rdir0) and not a.only:
        for fn in os.listdir(rdir0):
            if fn.endswith(".json"):
                os.unlink(os.path.join(rdir0, fn))     # replay files belong to one run
    findings = load_findings()
    known, violations = [], []
    for o in failed:
        m = [f for f in findings if finding_matches(f, prop, o)]
        if m:
            known.append((o, m[0]))
        else:
            violations.append(o)

    viol_lines = []
    for o in violations:
        rdir = os.path.join(out_root, "replays", prop)
        os.makedirs(rdir, exist_ok=True)
        rpath = os.path.join(rdir, sanitize(o["id"]) + ".json")
        rep = {"reproduced": None, "note": "no replay harness for this obligation"}
        if hasattr(mod, "replay"):
            try:
                rep = mod.replay(o)
            except Exception as e:
                rep = {"reproduced": None, "note": f"replay harness error: {e!r}"}
        json.dump({"property": prop, "obligation": o["id"], "task": o.get("task"),
                   "verifier": {"backend": o["backend"], "status": o["status"], "formula": o.get("formula"),
                                "detail": o.get("detail"), "path_decisions": o.get("decisions"),
                                "counterexample_model": o.get("model")},
                   "record": o, "replay": rep}, open(rpath, "w"), indent=1, default=str)
        line = f"VIOLATION property={prop} replay={rpath}"
        if not rep.get("reproduced"):
            line += " no-failing-input-found"
        viol_lines.append((line, o))

    # ------------------------------------------------------------------ evidence
    level = claimed_level(mod, prop)
    bounded = []
    if hasattr(mod, "bounded_results"):
        bounded = list(mod.bounded_results)
    if bounded_obs:
        bounded.append({"bounded_obligations": [{"id": o["id"], "status": o["status"], "backend": o["backend"]} for o in bounded_obs.values()],
                        "counted_as_proved": False})
    proof_complete = (discharged == n_ob and n_ob > 0 and not missing and not errors and not undecided)
    ev_level = level if (level != "proof" or proof_complete) else "other"
    samples = []
    for o in list(obligations.values())[:3] + failed[:3]:
        samples.append({k: o.get(k) for k in ("id", "status", "backend", "ms", "detail", "formula", "model")})
    assumptions = list(GLOBAL_ASSUMPTIONS) + list(getattr(mod, "ASSUMPTIONS", []))
    assumptions += [f"assumed library contract: {m}" for m in sorted(models)]
    assumptions += [f"callee contract used instead of body (proved separately or assumed, see contracts/{prop}.py): {s}"
                    for s in sorted(summaries)]
    coverage = {
        "obligations": n_ob,
        "discharged": discharged,
        "failed": len(failed),
        "undecided": len(undec_obs) + len(undecided),
        "known_findings_matched": [{"obligation": o["id"], "what": f.get("what")} for o, f in known],
        "checker_cmd": f"cd /verif && ./check {prop} --tier {tier}",
        "trusted_base": ["pyvc symbolic executor (/verif/pyvc)", "z3 " + smt.versions()["z3-api"],
                         "spec transcriptions under /verif/spec (hand-written from PS3.x)"]
                        + list(getattr(mod, "TRUSTED", [])),
        "functions_under_contract": sorted(functions.values(), key=lambda f: f["function"]),
        "functions_inlined": sorted(inlined),
        "backends": backends,
        "solver_ms": round(solver_ms, 1),
        "solver_queries": queries,
        "paths_explored": paths,
        "solver_versions": smt.versions(),
        "tasks": [{"task": r["task"], "obligation_records": len(r["records"]), "paths": r["paths"],
                   "wall_s": round(r["wall_s"], 2), "undecided": r["undecided"]} for r in results],
        "samples": samples,
        "evaluations": sum(o["instances"] for o in obligations.values()),
        "distinct_nontrivial": len([o for o in obligations.values() if o["backend"] != "evaluation" or True]),
        "rule": "one evaluation = one (obligation, path) pair put to a back end; distinct = distinct obligation ids",
        "explanation": _explanation(mod, ev_level, n_ob, discharged, known, violations, undec_obs, undecided, missing, errors),
        "bounded_standins": bounded,
        "not_decided": list(getattr(mod, "NOT_DECIDED", [])),
    }
    if alt_note:
        coverage["alternative"] = alt_note
    evidence = {
        "property_id": prop, "tier": tier, "seed": seed, "level": ev_level, "coverage": coverage,
        "assumptions": assumptions, "wall_s": round(time.time() - t0, 2), "violations": len(viol_lines),
    }
    json.dump(evidence, open(ev_path, "w"), indent=1, default=str)

    # ------------------------------------------------------------------ thorough tier: second solver + native cross-check
    if tier == "thorough":
        rc = {}
        for res in results:
            for k, v in res.get("recheck", {}).items():
                rc[k] = rc.get(k, 0) + v
        evidence["coverage"]["second_solver_recheck"] = dict(rc, solver="cvc5 on the SMT-LIB2 export of the VCs z3 discharged: every obligation id, up to VERIF_RECHECK_PER_ID (default 6) path instances per worker process",
                                                             note="DISAGREE makes the obligation undecided")
        xc = {"ran": False}
        if hasattr(mod, "replay") and not a.only:
            # CPython cross-check: the scenario grid of the property's native replay harness runs on the REAL code; it must not
            # contradict the obligations that were discharged (a failing native scenario with no failing obligation is an
            # inconsistency between proof and code: checker error)
            try:
                r = mod.replay({"id": f"{prop}/cross-check", "model": {}})
            except Exception as e:
                r = {"reproduced": None, "note": f"replay harness error: {e!r}"}
            xc = {"ran": True, "native_scenarios_contradict_the_proof": bool(r.get("reproduced")), "result": {k: r.get(k) for k in ("note", "input", "observed", "expected") if k in r}}
            if r.get("reproduced") and not failed:
                errors.append(("native cross-check", f"the native replay grid fails on the real code although every obligation was discharged: {json.dumps(xc['result'], default=str)[:600]}"))
        evidence["coverage"]["cpython_cross_check"] = xc
        json.dump(evidence, open(ev_path, "w"), indent=1, default=str)

    # ------------------------------------------------------------------ verdict
    for o, f in known:
        print(f"KNOWN-FINDING: property={prop} {f.get('what', o['id'])}")
    print(f"{prop}: obligations={n_ob} discharged={discharged} failed={len(failed)} "
          f"(known={len(known)}) undecided={len(undec_obs) + len(undecided)} paths={paths} "
          f"solver_ms={solver_ms:.0f} wall={time.time() - t0:.1f}s")
    if a.v:
        for o in obligations.values():
            print(f"  [{o['status']:10s}] {o['id']}  ({o['backend']}, x{o['instances']})")
    if errors:
        for t, e in errors:
            print(f"CHECKER-ERROR property={prop} task={t}\n{e}")
        return 3
    if viol_lines:
        for line, o in viol_lines:
            print(f"  failed obligation: {o['id']} detail={o.get('detail')} model={o.get('model')}")
            print(line)
        return 1
    if n_ob == 0:
        print(f"CHECKER-ERROR property={prop} zero obligations generated")
        return 3
    if undecided or undec_obs or missing:
        for t, u in undecided:
            print(f"UNDECIDED property={prop} task={t}: {u}")
        for o in undec_obs:
            print(f"UNDECIDED property={prop} obligation={o['id']} backend={o['backend']}")
        for b in missing:
            print(f"UNDECIDED property={prop} baseline obligation not regenerated: {b}")
        return 2
    return 0


if __name__ == "__main__":
    sys.exit(main())

"""Assumed contracts of builtins and library functions (DESIGN §1.2, assumption A-LIB).

Every model used on a run is recorded in Interp.used_models and copied into the evidence."""
from __future__ import annotations

import ast

import z3

from .values import *  # noqa
from .values import BYTES, BV8, BUILTIN_EXC_PARENT, canon_exc
from .repo import ClassInfo


def _kind(I, v):
    return I.kind_of(v)


# ---------------------------------------------------------------------------------------------
# struct formats
# ---------------------------------------------------------------------------------------------
_FMT = {"B": 1, "H": 2, "L": 4, "I": 4, "Q": 8, "b": 1, "h": 2, "l": 4, "i": 4, "x": 1, "s": None}


def parse_struct_fmt(fmt: str):
    order = ">"
    if fmt and fmt[0] in "<>!=@":
        order = ">" if fmt[0] in ">!" else "<"
        fmt = fmt[1:]
    out = []
    num = ""
    for ch in fmt:
        if ch.isdigit():
            num += ch
            continue
        if ch == " ":
            continue
        if ch not in _FMT:
            raise Unsupported(f"struct format char {ch}")
        rep = int(num) if num else 1
        num = ""
        if ch == "s":
            out.append(("s", rep))
        else:
            for _ in range(rep):
                out.append((ch, _FMT[ch]))
    return order, out


class StructObj:
    def __init__(self, fmt):
        self.fmt = fmt
        self.order, self.fields = parse_struct_fmt(fmt)
        self.size = sum(w for _, w in self.fields)

    def sym_getattr(self, I, name):
        if name in ("pack", "unpack", "unpack_from"):
            return BoundBuiltin(self, name)
        if name == "size":
            return self.size
        return NotImplemented


def struct_pack(I, st: StructObj, vals):
    vals = list(vals)
    fields = [f for f in st.fields if f[0] != "x"]
    if len(fields) != len(vals):
        I.raise_("struct.error", f"pack expected {len(fields)} items for packing (got {len(vals)})")
    parts = []
    concrete = True
    for (ch, w), v in zip(fields, vals):
        if ch == "s":
            raise Unsupported("struct 's' pack")
        if isinstance(v, SV) and v.k == "int":
            concrete = False
            lo, hi = (0, 2 ** (8 * w)) if ch.isupper() else (-(2 ** (8 * w - 1)), 2 ** (8 * w - 1))
            ok = z3.And(v.e >= lo, v.e < hi)
            if not I.valid(ok):
                if I.branch(SV(z3.Not(ok), "bool"), "struct.range"):
                    I.raise_("struct.error", f"'{ch}' format requires {lo} <= number < {hi}")
            parts.append(("sym", v.e, w))
        elif isinstance(v, bool) or isinstance(v, int):
            lo, hi = (0, 2 ** (8 * w)) if ch.isupper() else (-(2 ** (8 * w - 1)), 2 ** (8 * w - 1))
            if not (lo <= int(v) < hi):
                I.raise_("struct.error", f"'{ch}' format requires {lo} <= number < {hi}")
            parts.append(("int", int(v), w))
        else:
            I.raise_("struct.error", "required argument is not an integer")
    if concrete:
        out = b""
        for _, v, w in parts:
            out += (v % (2 ** (8 * w))).to_bytes(w, "big" if st.order == ">" else "little")
        return out
    from .layout import LB, UInt
    segs = []
    for tag, v, w in parts:
        e = v if tag == "sym" else z3.IntVal(v)
        if st.order != ">" and w > 1:
            raise Unsupported("little-endian symbolic struct.pack")
        if tag == "sym" and not I.valid(e >= 0):
            e = z3.If(e >= 0, e, e + 2 ** (8 * w))      # two's complement of signed fields
        segs.append(UInt(w, e))
    return LB(segs)


def struct_unpack(I, st: StructObj, data):
    if isinstance(data, ByteArr):
        data = data.v
    if isinstance(data, (bytes, bytearray)):
        import struct as _s
        try:
            return tuple(_s.unpack(st.fmt, bytes(data)))
        except _s.error as e:
            I.raise_("struct.error", str(e))
    if hasattr(data, "sym_unpack"):
        return data.sym_unpack(I, st)
    if not (isinstance(data, SV) and data.k == "bytes"):
        I.raise_("TypeError", "a bytes-like object is required")
    ln = z3.Length(data.e)
    if not I.valid(ln == st.size):
        if I.branch(SV(ln != st.size, "bool"), "struct.len"):
            I.raise_("struct.error", f"unpack requires a buffer of {st.size} bytes")
    out = []
    off = 0
    for ch, w in st.fields:
        if ch == "x":
            off += w
            continue
        if ch == "s":
            out.append(SV(z3.SubSeq(data.e, off, w), "bytes"))
            off += w
            continue
        bs = [data.e[off + i] for i in range(w)]
        for b_ in bs:
            I.assume(z3.And(b_ >= 0, b_ <= 255))       # elements of a bytes value
        if st.order == "<":
            bs.reverse()
        val = bs[0]
        for b_ in bs[1:]:
            val = val * 256 + b_
        if not ch.isupper():
            val = z3.If(val >= 2 ** (8 * w - 1), val - 2 ** (8 * w), val)
        out.append(SV(val, "int"))
        off += w
    return tuple(out)


# ---------------------------------------------------------------------------------------------
# builtins
# ---------------------------------------------------------------------------------------------
def b_len(I, args, kw):
    v = I.resolve_seq(args[0])
    if isinstance(v, ByteArr):
        v = v.v
    if hasattr(v, "sym_len"):
        return v.sym_len(I)
    if isinstance(v, (list, tuple, str, bytes, dict, set, frozenset, range)):
        return len(v)
    if isinstance(v, SV) and v.k in ("bytes", "str"):
        return SV(z3.Length(v.e), "int")
    if isinstance(v, SymSeq):
        return SV(v.length, "int")
    if isinstance(v, Obj):
        m = v.cls.find(I.repo, "__len__")
        if m and m[0] == "method":
            return I.call_func(m[1], [v], {})
        I.raise_("TypeError", f"object of type '{v.cls.name}' has no len()")
    if isinstance(v, Env):
        if "len" not in v.data:
            n = I.fresh("int", f"len({v.path})")
            I.assume(n.e >= 0)
            v.data["len"] = n
            if v.truth is None:
                v.truth = n.e > 0
        return v.data["len"]
    if v is None or isinstance(v, (int, float)) or (isinstance(v, SV) and v.k in ("int", "real", "bool")):
        I.raise_("TypeError", "object has no len()")
    raise Unsupported(f"len of {type(v).__name__}")


_TYPE_KINDS = {"int": ("int", "bool"), "bool": ("bool",), "str": ("str", "astr"), "bytes": ("bytes",), "float": ("real",)}


def isinstance_one(I, v, t):
    """returns bool | z3 Bool"""
    if isinstance(t, ClassRef):
        t = t.ci
    if isinstance(t, ClassInfo):
        if isinstance(v, Obj):
            return v.cls.is_subclass_of(I.repo, t)
        if isinstance(v, ExcVal):
            return v.ci is not None and v.ci.is_subclass_of(I.repo, t)
        if isinstance(v, Env):
            return _env_isinstance(I, v, t.qualname, t)
        return False
    if isinstance(t, Ext):
        name = t.name
        if name in _TYPE_KINDS:
            if isinstance(v, ByteArr):
                return False
            k = I.kind_of(v)
            if k is not None:
                return k in _TYPE_KINDS[name]
            if isinstance(v, Env):
                return _env_isinstance(I, v, name, None)
            return False
        if name == "bytearray":
            if isinstance(v, ByteArr):
                return True
            if isinstance(v, Env):
                return _env_isinstance(I, v, name, None)
            return False
        if name.split(".")[-1] == "UID" and (hasattr(v, "is_uid") or isinstance(v, str)):
            return bool(getattr(v, "is_uid", False))
        if name in ("list", "tuple", "dict", "set"):
            py = {"list": list, "tuple": tuple, "dict": dict, "set": set}[name]
            if isinstance(v, Env):
                return _env_isinstance(I, v, name, None)
            return isinstance(v, py)
        if name == "type":
            return isinstance(v, (ClassRef,)) or (isinstance(v, Ext))
        if name == "object":
            return True
        if name == "NoneType":
            if isinstance(v, Env) and not v.nonnull:
                return I.isnone(v)
            return v is None
        if isinstance(v, ExcVal):
            return I.exc_isinstance(v, name)
        if isinstance(v, Env):
            return _env_isinstance(I, v, name, None)
        if hasattr(v, "ext_class"):
            return v.ext_class == name or name in getattr(v, "ext_bases", ()) or v.ext_class.split(".")[-1] == name.split(".")[-1]
        if isinstance(v, Obj):
            return name in v.cls.external_bases(I.repo)
        return False
    if isinstance(t, (tuple, list)):
        parts = [isinstance_one(I, v, x) for x in t]
        if any(p is True for p in parts):
            return True
        sym = [p for p in parts if not isinstance(p, bool)]
        if not sym:
            return False
        return z3.Or(sym)
    if t is None:
        return v is None
    raise Unsupported(f"isinstance against {t!r}")


def _env_isinstance(I, env: Env, tname, ci):
    """Type tests on opaque values: consistent symbolic Booleans; a declared class decides."""
    if env.cls is not None:
        if isinstance(env.cls, ClassInfo):
            if ci is not None:
                return env.cls.is_subclass_of(I.repo, ci)
            return tname in env.cls.external_bases(I.repo)
        if isinstance(env.cls, str):
            if ci is None:
                return env.cls == tname
            return False
    key = ("isinstance", tname)
    if key not in env.data:
        I._fresh_n += 1
        env.data[key] = z3.Bool(f"isinstance({env.path},{tname})!{I._fresh_n}")
        if not env.nonnull:
            I.assume(z3.Implies(I.isnone(env), z3.Not(env.data[key])))
    return env.data[key]


def b_isinstance(I, args, kw):
    r = isinstance_one(I, args[0], args[1])
    return r if isinstance(r, bool) else SV(r, "bool")


def b_int(I, args, kw):
    if not args:
        return 0
    v = args[0]
    if isinstance(v, SV):
        if v.k == "int":
            return v
        if v.k == "bool":
            return SV(z3.If(v.e, 1, 0), "int")
        if v.k == "real":
            return SV(z3.ToInt(v.e), "int")   # exact for non-negative values (trunc == floor)
        if v.k == "str":
            if I.branch(I.fresh("bool", "int_parse_fails"), "int()"):
                I.raise_("ValueError", "invalid literal for int()")
            r = I.fresh("int", "int")
            I.assume(r.e == z3.StrToInt(v.e))
            return r
    if isinstance(v, (int, float, bool)):
        return int(v)
    if isinstance(v, (str, bytes)):
        try:
            return int(v, *args[1:])
        except ValueError as e:
            I.raise_("ValueError", str(e))
    if v is None:
        I.raise_("TypeError", "int() argument must be a string, a bytes-like object or a real number, not 'NoneType'")
    if isinstance(v, Env):
        if I.branch(I.fresh("bool", "int_fails"), "int()"):
            I.raise_("ValueError", "invalid literal for int()")
        return I.fresh("int", "int")
    raise Unsupported("int() of " + type(v).__name__)


def b_bool(I, args, kw):
    if not args:
        return False
    t = I.truth(args[0])
    return t if isinstance(t, bool) else SV(t, "bool")


def b_bytes(I, args, kw):
    if not args:
        return b""
    v = args[0]
    if isinstance(v, ByteArr):
        return v.v
    if isinstance(v, (bytes, bytearray)):
        return bytes(v)
    if isinstance(v, SV) and v.k == "bytes":
        return v
    if isinstance(v, int):
        return bytes(v)
    if isinstance(v, (list, tuple)) and all(isinstance(x, int) for x in v):
        return bytes(v)
    if hasattr(v, "sym_bytes"):
        return v.sym_bytes(I)
    raise Unsupported("bytes() of " + type(v).__name__)


def b_bytearray(I, args, kw):
    if not args:
        return ByteArr(b"")
    return ByteArr(b_bytes(I, args, kw))


def b_str(I, args, kw):
    if not args:
        return ""
    v = args[0]
    if isinstance(v, (int, str, float, bool, type(None))):
        return str(v)
    if isinstance(v, SV) and v.k == "str":
        return v
    if isinstance(v, SV) and v.k == "int":
        r = I.fresh("str", "str")
        I.assume(z3.Implies(v.e >= 0, r.e == z3.IntToStr(v.e)))
        return r
    if isinstance(v, ExcVal):
        return I.fresh("str", "excstr")
    if hasattr(v, "sym_str"):
        return v.sym_str(I)
    return I.fresh("str", "str")


def b_range(I, args, kw):
    if all(isinstance(a, int) for a in args):
        return range(*args)
    # symbolic bound
    if len(args) == 1:
        lo, hi = 0, args[0]
    elif len(args) == 2:
        lo, hi = args
    else:
        lo, hi, st = args
        lo_e, hi_e, st_e = I._num(lo, "int"), I._num(hi, "int"), I._num(st, "int")
        if I.branch(SV(st_e == 0, "bool"), "range step is zero"):
            I.raise_("ValueError", "range() arg 3 must not be zero")
        if not I.branch(SV(st_e > 0, "bool"), "range step is positive"):
            raise Unsupported("range with a symbolic negative step")
        # n = ceil((hi - lo) / step) for hi > lo, else 0 - stated as linear-in-n facts
        n = I.fresh("int", "range_len").e
        d = hi_e - lo_e
        I.assume(z3.If(d > 0, z3.And(n * st_e >= d, (n - 1) * st_e < d, n >= 1), n == 0))
        return SymSeq("range", n, lambda i: SV(lo_e + i * st_e, "int"), kind="range")
    lo_e, hi_e = I._num(lo, "int"), I._num(hi, "int")
    n = z3.If(hi_e - lo_e > 0, hi_e - lo_e, 0)
    return SymSeq("range", n, lambda i: SV(lo_e + i, "int"), kind="range")


class EnumIter:
    """enumerate(<iterator under contract>, start): (start + number of elements taken so far, next element)"""

    def __init__(self, it, start):
        self.it, self.start, self.taken = it, start, 0

    def truth(self, I):
        return True

    def sym_next(self, I, default=None):
        x = self.it.sym_next(I, default)
        idx = I.binop(ast.Add(), self.start, self.taken) if not (isinstance(self.start, int) and isinstance(self.taken, int)) else self.start + self.taken
        # the number already taken is the iterator's own count when it keeps one (its loop contract havocs it)
        cnt = getattr(self.it, "count", None)
        if cnt is not None:
            idx = SV(I._num(self.start, "int") + cnt - 1, "int")
        else:
            self.taken += 1
        return (idx, x)


def b_enumerate(I, args, kw):
    start = kw.get("start", args[1] if len(args) > 1 else 0)
    it = args[0]
    if hasattr(it, "sym_next") and not isinstance(it, (SymSeq, StreamV)):
        return EnumIter(it, start)
    if isinstance(it, StreamV):
        return StreamV(f"enumerate({it.name})", lambda I_, i, it=it, start=start: (SV(i.e + start, "int"), it.next_elem(I_, i)))
    if isinstance(it, SymSeq):
        return SymSeq(f"enumerate({it.name})", it.length, lambda i: (SV(i + start, "int"), it.elem(i)), kind="enumerate")
    return [(i + start, x) for i, x in enumerate(I.iterate(it))]


def b_zip(I, args, kw):
    args = [a.as_symseq(I) if hasattr(a, "as_symseq") else a for a in args]
    if any(isinstance(a, SymSeq) for a in args):
        # zip with symbolic-length operands: length = the minimum, element i = the tuple of the i-th elements
        n = None
        getters = []
        for a in args:
            if isinstance(a, SymSeq):
                ln, get = a.length, a.elem
            else:
                xs = list(I.iterate(a))
                ln, get = z3.IntVal(len(xs)), (lambda xs: lambda i: xs[I.concretize(i)] if I.concretize(i) is not None else _unsup("zip index"))(xs)
            n = ln if n is None else z3.If(ln < n, ln, n)
            getters.append(get)
        return SymSeq("zip", n, lambda i: tuple(g(i) for g in getters), kind="zip")
    return [tuple(x) for x in zip(*[list(I.iterate(a)) for a in args])]


def _unsup(what):
    raise Unsupported(what)


def b_sorted(I, args, kw):
    from .symcoll import SortedView
    from .symcoll import ConcatSeq
    if isinstance(args[0], (SymSeq, ConcatSeq)):
        I.used_models.add("sorted(): permutation of its input ordered by key")
        return SortedView(args[0], kw.get("key"))
    xs = list(I.iterate(args[0]))
    key = kw.get("key")
    rev = kw.get("reverse", False)
    if key is not None:
        ks = [I.call_value(key, [x], {}) for x in xs]
    else:
        ks = xs
    if all(isinstance(k, (int, str, bytes, float, tuple)) and not isinstance(k, bool) or isinstance(k, bool) for k in ks):
        try:
            order = sorted(range(len(xs)), key=lambda i: ks[i], reverse=bool(rev))
            return [xs[i] for i in order]
        except TypeError:
            I.raise_("TypeError", "'<' not supported")
    # symbolic keys: insertion sort with forking comparisons (exact, small lists)
    if len(xs) > 6:
        raise Unsupported("sorted with symbolic keys on a long list")
    out = []
    for x, k in zip(xs, ks):
        pos = len(out)
        for j, (y, ky) in enumerate(out):
            lt = I.compare(ast.Lt(), k, ky) if not rev else I.compare(ast.Gt(), k, ky)
            if I.branch(lt if isinstance(lt, bool) else SV(lt, "bool"), "sorted"):
                pos = j
                break
        out.insert(pos, (x, k))
    return [x for x, _ in out]


def b_minmax(is_min):
    def f(I, args, kw):
        xs = list(I.iterate(args[0])) if len(args) == 1 else list(args)
        if not xs:
            if "default" in kw:
                return kw["default"]
            I.raise_("ValueError", "min()/max() arg is an empty sequence")
        if all(not isinstance(x, SV) for x in xs):
            return min(xs) if is_min else max(xs)
        kind = "real" if any(I.kind_of(x) == "real" for x in xs) else "int"
        cur = I._num(xs[0], kind)
        for x in xs[1:]:
            e = I._num(x, kind)
            cur = z3.If(e < cur, e, cur) if is_min else z3.If(e > cur, e, cur)
        return SV(cur, kind)
    return f


def b_hasattr(I, args, kw):
    v, name = args
    if isinstance(v, Obj):
        if name in v.fields:
            return True
        return v.cls.find(I.repo, name) is not None
    if isinstance(v, Env):
        if name in v.attrs:
            return True
        if I.cfg.env_call is not None:
            r = I.cfg.env_call(I, v, "__hasattr__", [name], {})
            if r is not NotImplemented:
                return r
        key = ("hasattr", name)
        if key not in v.data:
            v.data[key] = I.fresh("bool", f"hasattr({v.path},{name})")
        return v.data[key]
    if v is None:
        return False
    if isinstance(v, (int, str, bytes, list, dict, tuple)):
        return hasattr(v, name)
    if isinstance(v, SV):
        py = {"int": int, "bool": bool, "str": str, "bytes": bytes, "real": float}[v.k]
        return hasattr(py, name)
    if isinstance(v, ExcVal):
        return name in v.fields or name in ("args",)
    if isinstance(v, FuncRef):
        return name in ("__name__", "__call__")
    if hasattr(v, "sym_hasattr"):
        return v.sym_hasattr(I, name)
    if hasattr(v, "sym_getattr"):
        try:
            return v.sym_getattr(I, name) is not NotImplemented
        except PyRaise as pr:
            if pr.exc.cls_name == "AttributeError":
                return False
            raise
    raise Unsupported("hasattr on " + type(v).__name__)


def b_getattr(I, args, kw):
    v, name = args[0], args[1]
    if isinstance(name, SV):
        raise Unsupported("getattr with symbolic name")
    if len(args) == 3:
        t = b_hasattr(I, [v, name], {})
        if I.branch(t, "getattr-default"):
            return I.getattr(v, name)
        return args[2]
    return I.getattr(v, name)


def b_setattr(I, args, kw):
    I.setattr(args[0], args[1], args[2])
    return None


def b_list(I, args, kw):
    if not args:
        return []
    if isinstance(args[0], SymSeq):
        return args[0]
    return list(I.iterate(args[0]))


def b_tuple(I, args, kw):
    if not args:
        return ()
    return tuple(I.iterate(args[0]))


def b_dict(I, args, kw):
    d = {}
    if args:
        if isinstance(args[0], dict):
            d.update(args[0])
        else:
            for k, v in I.iterate(args[0]):
                d[I.hashable(k)] = v
    d.update(kw)
    return d


def b_any(I, args, kw):
    for x in I.iterate(args[0]):
        if I.branch(x, "any"):
            return True
    return False


def b_all(I, args, kw):
    for x in I.iterate(args[0]):
        if not I.branch(x, "all"):
            return False
    return True


def b_next(I, args, kw):
    g = args[0]
    if isinstance(g, GenObj):
        ok, v = I.gen_next(g)
        if ok:
            return v
        if len(args) > 1:
            return args[1]
        I.raise_("StopIteration")
    if isinstance(g, ListIter):
        if g.i < len(g.xs):
            g.i += 1
            return g.xs[g.i - 1]
        if len(args) > 1:
            return args[1]
        I.raise_("StopIteration")
    if hasattr(g, "sym_next"):
        return g.sym_next(I, args[1:] )
    if g is None or isinstance(g, (int, str, bytes, list, tuple, dict, float)):
        I.raise_("TypeError", f"'{type(g).__name__}' object is not an iterator")
    raise Unsupported("next() on " + type(g).__name__)


class SliceVal:
    def __init__(self, lo, hi, step=None):
        self.lo, self.hi, self.step = lo, hi, step


def b_slice(I, args, kw):
    if len(args) == 1:
        return SliceVal(None, args[0])
    return SliceVal(*args)


class ListIter:
    def __init__(self, xs):
        self.xs = list(xs)
        self.i = 0

    def sym_iter(self, I):
        while self.i < len(self.xs):
            self.i += 1
            yield self.xs[self.i - 1]


def b_iter(I, args, kw):
    v = args[0]
    if isinstance(v, GenObj) or hasattr(v, "sym_next"):
        return v
    return ListIter(I.iterate(v))


def b_type(I, args, kw):
    v = args[0]
    if isinstance(v, Obj):
        return ClassRef(v.cls)
    if isinstance(v, ExcVal):
        return ClassRef(v.ci) if v.ci else Ext(v.cls_name)
    k = I.kind_of(v)
    if k:
        return Ext({"real": "float"}.get(k, k))
    if isinstance(v, Env):
        return I.getattr(v, "__class__")
    if v is None:
        return Ext("NoneType")
    if isinstance(v, (list, tuple, dict)):
        return Ext(type(v).__name__)
    raise Unsupported("type() of " + type(v).__name__)


def b_callable(I, args, kw):
    v = args[0]
    if isinstance(v, (FuncRef, ClassRef, Ext, BoundBuiltin, LambdaRef)):
        return True
    if isinstance(v, Env):
        key = ("callable",)
        if key not in v.data:
            v.data[key] = I.fresh("bool", f"callable({v.path})")
        return v.data[key]
    return False


def b_abs(I, args, kw):
    v = args[0]
    if isinstance(v, SV):
        return SV(z3.If(v.e >= 0, v.e, -v.e), v.k)
    return abs(v)


def b_sum(I, args, kw):
    tot = args[1] if len(args) > 1 else 0
    for x in I.iterate(args[0]):
        tot = I.binop(ast.Add(), tot, x)
    return tot


def b_float(I, args, kw):
    v = args[0]
    if isinstance(v, SV):
        if v.k == "real":
            return v
        return SV(z3.ToReal(I._num(v, "int")), "real")
    if isinstance(v, (int, float)):
        return float(v)
    raise Unsupported("float()")


def b_repr(I, args, kw):
    v = args[0]
    if isinstance(v, (int, str, bytes, float, bool, type(None))):
        return repr(v)
    return I.fresh("str", "repr")


def b_issubclass(I, args, kw):
    c, t = args
    if isinstance(c, ClassRef):
        ts = t if isinstance(t, (tuple, list)) else [t]
        for x in ts:
            if isinstance(x, ClassRef) and c.ci.is_subclass_of(I.repo, x.ci):
                return True
            if isinstance(x, Ext) and (x.name in c.ci.external_bases(I.repo)):
                return True
        return False
    raise Unsupported("issubclass")


def b_print(I, args, kw):
    return None


def b_id(I, args, kw):
    return id(args[0])


def b_reversed(I, args, kw):
    v = args[0]
    if isinstance(v, SymSeq):
        return SymSeq(f"reversed({v.name})", v.length, lambda i: v.elem(v.length - 1 - i), contains=v.contains)
    return list(reversed(list(I.iterate(v))))


def b_ord(I, args, kw):
    v = args[0]
    if isinstance(v, str):
        return ord(v)
    raise Unsupported("ord symbolic")


def b_hex(I, args, kw):
    v = args[0]
    if isinstance(v, int):
        return hex(v)
    return I.fresh("str", "hex")


def b_format(I, args, kw):
    try:
        if all(isinstance(a, (int, str, float)) for a in args):
            return format(*args)
    except Exception:
        pass
    return I.fresh("str", "format")


def b_set(I, args, kw):
    if not args:
        return []
    out = []
    for x in I.iterate(args[0]):
        t = I.contains(out, x)
        if isinstance(t, bool):
            if not t:
                out.append(x)
        else:
            raise Unsupported("set() of symbolic values")
    return out


def b_vars(I, args, kw):
    """vars(<opaque object / module>): an opaque mapping owned by the environment"""
    v = args[0] if args else None
    if isinstance(v, Env):
        if "vars" not in v.data:
            v.data["vars"] = Env(f"vars({v.path})")
        return v.data["vars"]
    raise Unsupported("vars() of a non-opaque value")


BUILTINS = {
    "vars": b_vars,
    "len": b_len, "isinstance": b_isinstance, "int": b_int, "bool": b_bool, "bytes": b_bytes,
    "bytearray": b_bytearray, "str": b_str, "range": b_range, "enumerate": b_enumerate, "zip": b_zip,
    "sorted": b_sorted, "min": b_minmax(True), "max": b_minmax(False), "hasattr": b_hasattr,
    "getattr": b_getattr, "setattr": b_setattr, "list": b_list, "tuple": b_tuple, "dict": b_dict,
    "any": b_any, "all": b_all, "next": b_next, "iter": b_iter, "type": b_type, "callable": b_callable,
    "abs": b_abs, "sum": b_sum, "float": b_float, "repr": b_repr, "issubclass": b_issubclass,
    "print": b_print, "id": b_id, "reversed": b_reversed, "ord": b_ord, "hex": b_hex, "format": b_format,
    "set": b_set, "frozenset": b_set, "slice": b_slice,
}


# ---------------------------------------------------------------------------------------------
# external callables
# ---------------------------------------------------------------------------------------------
def call_ext(I, f: Ext, args, kw, node=None):
    name = f.name
    if name in I.cfg.ext_models:
        I.used_models.add(name)
        return I.cfg.ext_models[name](I, args, kw)
    if name in BUILTINS:
        I.used_models.add("builtins." + name)
        return BUILTINS[name](I, args, kw)
    cname = canon_exc(name)
    if cname in BUILTIN_EXC_PARENT or name in ("IOError",):
        return ExcVal(cname, args)
    if name in ("struct.Struct", "Struct"):
        I.used_models.add("struct.Struct")
        return StructObj(args[0])
    if name in ("struct.pack",):
        I.used_models.add("struct.pack")
        return struct_pack(I, StructObj(args[0]), args[1:])
    if name in ("struct.unpack",):
        I.used_models.add("struct.unpack")
        return struct_unpack(I, StructObj(args[0]), args[1])
    if name == "int.from_bytes":
        I.used_models.add("int.from_bytes")
        data = args[0]
        order = args[1] if len(args) > 1 else kw.get("byteorder", "big")
        signed = kw.get("signed", False)
        if isinstance(data, ByteArr):
            data = data.v
        if isinstance(data, (bytes, bytearray)) and isinstance(order, str):
            return int.from_bytes(bytes(data), order, signed=bool(signed))
        if order not in ("big", "little") or signed is not False:
            raise Unsupported("int.from_bytes with symbolic byte order / signed")
        ln = call_ext(I, Ext("len"), [data], {})
        n = I.concretize(I._num(ln, "int")) if not isinstance(ln, int) else ln
        if n is None:
            raise Unsupported("int.from_bytes of a value of symbolic length")
        vals = [I._num(I.index(data, i), "int") for i in range(n)]
        if order == "little":
            vals.reverse()
        val = z3.IntVal(0)
        for b_ in vals:
            val = val * 256 + b_
        return SV(z3.simplify(val), "int")
    if name == "warnings.warn":
        I.used_models.add("warnings.warn: returns None (the 'error' warnings filter is not in use)")
        return None
    if name == "object.__init__":
        return None
    if name in ("typing.cast", "cast"):
        return args[1]
    if name in ("math.ceil", "ceil"):
        I.used_models.add("math.ceil")
        v = args[0]
        if isinstance(v, SV):
            if v.k == "int":
                return v
            r = I.fresh("int", "ceil")
            I.assume(z3.And(z3.ToReal(r.e) >= v.e, z3.ToReal(r.e) - 1 < v.e))
            # when the argument is a quotient a/b of integers with b > 0, state the same fact over the integers
            # (r*b >= a and (r-1)*b < a): exact mathematics, saves the solver the real/integer bridge
            e = v.e
            if z3.is_app(e) and e.decl().kind() == z3.Z3_OP_DIV and e.num_args() == 2:
                a_, b_ = e.arg(0), e.arg(1)
                def as_int(t):
                    if z3.is_app(t) and t.decl().kind() == z3.Z3_OP_TO_REAL:
                        return t.arg(0)
                    if z3.is_rational_value(t) and t.denominator_as_long() == 1:
                        return z3.IntVal(t.numerator_as_long())
                    return None
                ai, bi = as_int(a_), as_int(b_)
                if ai is not None and bi is not None and I.valid(bi > 0):
                    I.assume(z3.And(r.e * bi >= ai, (r.e - 1) * bi < ai))
            return r
        import math
        return math.ceil(v)
    if name == "unicodedata.category":
        I.used_models.add("unicodedata.category (concrete characters: CPython's table; ASCII part identical in 3.11/3.12)")
        if isinstance(args[0], str):
            import unicodedata
            return unicodedata.category(args[0])
        raise Unsupported("unicodedata.category on symbolic character")
    if name in ("copy.deepcopy", "deepcopy", "copy.copy"):
        raise Unsupported("deepcopy")
    for pre in I.cfg.ext_opaque:
        if name == pre or name.startswith(pre + "."):
            I.used_models.add(f"{pre}.* (opaque: traced, unconstrained result)")
            r = I.opaque(f"ret({name})", nonnull=True)
            I.trace.append(Ev(f"ext:{name}", args, kw, r))
            return r
    raise Unsupported(f"external call {name} has no model")


# ---------------------------------------------------------------------------------------------
# methods of builtin values
# ---------------------------------------------------------------------------------------------
def call_method(I, recv, name, args, kw, node=None):
    if isinstance(recv, StructObj):
        I.used_models.add("struct.Struct." + name)
        if name == "pack":
            return struct_pack(I, recv, args)
        if name == "unpack":
            return struct_unpack(I, recv, args[0])
        if name == "unpack_from":
            # unpack_from(buffer, offset=0) with offset >= 0: the fields of buffer[offset : offset+size]; struct.error unless at
            # least `size` bytes follow the offset - which is exactly "that slice has `size` bytes".  (A negative offset counts
            # from the end: not modelled.)
            buf = args[0] if args else kw["buffer"]
            off = args[1] if len(args) > 1 else kw.get("offset", 0)
            if isinstance(off, SV):
                if not I.valid(off.e >= 0):
                    raise Unsupported("struct.unpack_from with an offset that may be negative")
                hi = SV(off.e + recv.size, "int")
            else:
                if off < 0:
                    raise Unsupported("struct.unpack_from with a negative offset")
                hi = off + recv.size
            return struct_unpack(I, recv, I.slice(buf, off, hi, None))
    if hasattr(recv, "sym_method"):
        r = recv.sym_method(I, name, args, kw)
        if r is not NotImplemented:
            return r
    if isinstance(recv, list):
        return _list_method(I, recv, name, args, kw)
    if isinstance(recv, dict):
        return _dict_method(I, recv, name, args, kw)
    if isinstance(recv, ByteArr):
        return _bytearray_method(I, recv, name, args, kw)
    if isinstance(recv, (str, bytes, tuple, int, float)):
        # the method is run by CPython only when every argument is an ordinary Python value (a symbolic or abstract argument
        # would make CPython raise a TypeError that the modelled program never raises)
        if all(_plain_py(a) for a in args) and all(_plain_py(a) for a in kw.values()):
            try:
                r = getattr(recv, name)(*args, **kw)
                if isinstance(r, (map, filter, zip)):
                    r = list(r)
                return r
            except (ValueError, UnicodeError, IndexError, TypeError, AttributeError) as e:
                I.raise_(type(e).__name__, str(e))
        if isinstance(recv, str) and name == "join" and isinstance(args[0], SymSeq):
            # text built from a sequence of unknown length (log / error messages): some string
            return I.fresh("str", "joined")
        if isinstance(recv, str) and name == "join":
            xs = list(I.iterate(args[0]))
            if any(isinstance(x, SV) for x in xs):
                out = None
                for i, x in enumerate(xs):
                    e = I.z(x)
                    out = e if out is None else z3.Concat(out, z3.StringVal(recv), e)
                return SV(out, "str") if out is not None else ""
        if isinstance(recv, bytes) and name == "join":
            xs = list(I.iterate(args[0]))
            out = b""
            for i, x in enumerate(xs):
                if i and recv:
                    out = I.binop(ast.Add(), out, recv)
                out = I.binop(ast.Add(), out, x)
            return out
        if isinstance(recv, str) and name == "format":
            return I.fresh("str", "format")
        raise Unsupported(f"{type(recv).__name__}.{name} with symbolic arguments")
    if isinstance(recv, SV):
        return _sv_method(I, recv, name, args, kw)
    if isinstance(recv, ListIter) and name == "__next__":
        return b_next(I, [recv], {})
    if isinstance(recv, GenObj):
        if name == "__next__":
            return b_next(I, [recv], {})
        if name == "close":
            recv.done = True
            return None
    raise Unsupported(f"method {name} on {type(recv).__name__}")


def _plain_py(x, depth=0):
    if x is None or isinstance(x, (str, bytes, bool, int, float, range)):
        return True
    if depth < 4 and isinstance(x, (list, tuple, set, frozenset)):
        return all(_plain_py(y, depth + 1) for y in x)
    if depth < 4 and isinstance(x, dict):
        return all(_plain_py(k, depth + 1) and _plain_py(v, depth + 1) for k, v in x.items())
    return False


def _list_method(I, xs, name, args, kw):
    if name == "append":
        xs.append(args[0])
        return None
    if name == "extend":
        if isinstance(args[0], SymSeq):
            if xs:
                raise Unsupported("list.extend(<symbolic sequence>) on a non-empty list")
            I.sym_ext[id(xs)] = (xs, args[0])
            return None
        xs.extend(I.iterate(args[0]))
        return None
    if name == "pop":
        if not xs:
            I.raise_("IndexError", "pop from empty list")
        return xs.pop(*args)
    if name == "insert":
        xs.insert(args[0], args[1])
        return None
    if name == "index":
        for i, x in enumerate(xs):
            if I.branch(I._wrapb(I.eq(x, args[0])), "list.index"):
                return i
        I.raise_("ValueError", "not in list")
    if name == "remove":
        for i, x in enumerate(xs):
            if I.branch(I._wrapb(I.eq(x, args[0])), "list.remove"):
                del xs[i]
                return None
        I.raise_("ValueError", "list.remove(x): x not in list")
    if name == "copy":
        return list(xs)
    if name == "clear":
        xs.clear()
        return None
    if name == "sort":
        r = b_sorted(I, [xs], kw)
        xs[:] = r
        return None
    if name == "reverse":
        xs.reverse()
        return None
    if name == "count":
        return sum(1 for x in xs if I.branch(I._wrapb(I.eq(x, args[0])), "count"))
    raise Unsupported(f"list.{name}")


def _dict_method(I, d, name, args, kw):
    if name == "get":
        k = args[0]
        default = args[1] if len(args) > 1 else None
        if isinstance(k, SV):
            for kk in list(d.keys()):
                if I.branch(I._wrapb(I.eq(k, kk)), "dict.get"):
                    return d[kk]
            return default
        return d.get(I.hashable(k), default)
    if name == "keys":
        return list(d.keys())
    if name == "values":
        return list(d.values())
    if name == "items":
        return [(k, v) for k, v in d.items()]
    if name == "update":
        if args:
            d.update(args[0] if isinstance(args[0], dict) else dict(I.iterate(args[0])))
        d.update(kw)
        return None
    if name == "pop":
        k = I.hashable(args[0])
        if k in d:
            return d.pop(k)
        if len(args) > 1:
            return args[1]
        I.raise_("KeyError", k)
    if name == "setdefault":
        return d.setdefault(I.hashable(args[0]), args[1] if len(args) > 1 else None)
    if name == "copy":
        return dict(d)
    if name == "clear":
        d.clear()
        return None
    raise Unsupported(f"dict.{name}")


def _bytearray_method(I, ba, name, args, kw):
    if name == "extend":
        v = args[0]
        if isinstance(v, ByteArr):
            v = v.v
        if v is None or isinstance(v, (int,)):
            I.raise_("TypeError", "can't extend bytearray with non-iterable")
        ba.v = I.binop(ast.Add(), ba.v, v)
        return None
    if name == "append":
        v = args[0]
        if isinstance(v, int):
            ba.v = I.binop(ast.Add(), ba.v, bytes([v]))
            return None
    if name == "decode":
        return call_method(I, ba.v, "decode", args, kw)
    raise Unsupported(f"bytearray.{name}")


def _sv_method(I, v: SV, name, args, kw):
    hook = getattr(I.cfg, "sv_method", None)
    if hook is not None:
        r = hook(I, v, name, args, kw)
        if r is not NotImplemented:
            return r
    if v.k == "str":
        if name == "strip" and not args:
            raise Unsupported("str.strip on symbolic string (use a summary with uninterpreted strip)")
        if name == "startswith":
            return SV(z3.PrefixOf(I.z(args[0]), v.e), "bool")
        if name == "endswith":
            return SV(z3.SuffixOf(I.z(args[0]), v.e), "bool")
        if name == "encode":
            raise Unsupported("str.encode on symbolic string")
        if name == "format":
            return I.fresh("str", "format")
        if name in ("replace", "lower", "upper", "lstrip", "rstrip", "title", "casefold"):
            I.used_models.add(f"str.{name} on a symbolic string: over-approximated by an arbitrary string")
            return I.fresh("str", name)
    if v.k == "bytes":
        if name == "decode":
            raise Unsupported("bytes.decode on symbolic bytes")
    if v.k == "int":
        if name == "to_bytes":
            raise Unsupported("int.to_bytes symbolic")
    raise Unsupported(f"{v.k}.{name} on symbolic value")

"""Layout algebra for byte strings (DESIGN §1.1-4, Appendix A.1).

A byte string is a list of typed segments with symbolic widths:
    Raw(b)            concrete bytes
    UInt(n, e)        n-byte big-endian unsigned integer with value e (0 <= e < 256**n is an obligation
                      of whoever creates it: struct.pack raises otherwise)
    Slice(base,a,b)   base[a:b] of a ghost byte stream `base` (z3 Seq<Int>), 0 <= a <= b <= len(base)
    Blob(e)           arbitrary symbolic bytes (z3 Seq<Int>) of width Length(e)
    Ascii(s, w)       the ASCII encoding of string value s, width w (z3 Int) — s is z3 String or str
Concatenation, len, indexing, unpacking and slicing at offsets that z3 proves to lie on segment
boundaries (or inside a sliceable segment) are exact; an offset that cannot be located forks the path
on the undetermined comparison; anything else is Unsupported (undecided), never guessed."""
from __future__ import annotations

import ast

import z3

from .values import SV, ByteArr, Unsupported, BYTES, PyRaise


def _zi(x):
    if isinstance(x, bool):
        return z3.IntVal(int(x))
    if isinstance(x, int):
        return z3.IntVal(x)
    if isinstance(x, SV):
        return x.e
    return x


def _simp(e):
    e = z3.simplify(_zi(e), som=True)
    return e


def _conc(e):
    """python int if e simplifies to a numeral"""
    if isinstance(e, int):
        return e
    s = z3.simplify(e, som=True)
    if z3.is_int_value(s):
        return s.as_long()
    return None


def _num(t):
    """python int when the term is a numeral, else the simplified term"""
    if isinstance(t, int):
        return t
    c = _conc(t)
    return c if c is not None else _simp(t)


class Seg:
    sliceable = False

    def width(self):
        raise NotImplementedError

    def to_z3(self):
        raise NotImplementedError


class Raw(Seg):
    sliceable = True

    def __init__(self, data: bytes):
        self.data = bytes(data)

    def width(self):
        return len(self.data)

    def to_z3(self):
        from .smt import bytes_lit
        return bytes_lit(self.data)

    def sub(self, I, a, b):
        a, b = I.concretize(_zi(a)), I.concretize(_zi(b))
        if a is None or b is None:
            raise Unsupported("symbolic offset inside concrete bytes")
        return Raw(self.data[a:b])

    def byte(self, I, i):
        c = I.concretize(_zi(i))
        if c is None:
            raise Unsupported("symbolic index into concrete bytes")
        return self.data[c]

    def __repr__(self):
        return f"Raw({self.data!r})"


class UInt(Seg):
    def __init__(self, n, e):
        self.n = n
        self.e = _zi(e)

    def width(self):
        return self.n

    def to_z3(self):
        bs = [z3.Unit((self.e / (256 ** i)) % 256) for i in reversed(range(self.n))]
        return z3.Concat(bs) if len(bs) > 1 else bs[0]

    def byte(self, I, i):
        c = I.concretize(_zi(i))
        if c is None:
            raise Unsupported("symbolic index into packed integer")
        k = self.n - 1 - c
        return SV(_simp((self.e / (256 ** k)) % 256), "int") if self.n > 1 else SV(self.e, "int")

    def __repr__(self):
        return f"UInt{8 * self.n}({self.e})"


class Slice(Seg):
    sliceable = True

    def __init__(self, base, a, b, pred=None):
        self.base = base
        self.a = _simp(a)
        self.b = _simp(b)
        self.pred = pred          # element predicate of the base (instantiated at every element read)

    def width(self):
        return _num(self.b - self.a)

    def to_z3(self):
        return z3.SubSeq(self.base, self.a, self.b - self.a)

    def sub(self, I, a, b):
        return Slice(self.base, self.a + _zi(a), self.a + _zi(b), self.pred)

    def byte(self, I, i):
        el = self.base[_simp(self.a + _zi(i))]
        I.assume(z3.And(el >= 0, el <= 255))
        if self.pred is not None:
            I.assume(self.pred(el))
        return SV(el, "int")

    def __repr__(self):
        return f"Slice({self.base}[{self.a}:{self.b}])"


class Blob(Seg):
    """arbitrary symbolic bytes.  `pred` (optional): a well-formedness predicate that holds for EVERY element
    (a universally quantified assumption, instantiated at each element that is actually read); `trimmed`: the
    value neither starts nor ends with a space (canonical AE title)."""
    sliceable = True

    def __init__(self, e, pred=None, trimmed=False, tag=None):
        self.e = e
        self.pred = pred
        self.trimmed = trimmed
        self.tag = tag

    def width(self):
        return z3.Length(self.e)

    def to_z3(self):
        return self.e

    def sub(self, I, a, b):
        return Slice(self.e, _zi(a), _zi(b), self.pred)

    def byte(self, I, i):
        el = self.e[_zi(i)]
        I.assume(z3.And(el >= 0, el <= 255))
        if self.pred is not None:
            I.assume(self.pred(el))
        return SV(el, "int")

    def __repr__(self):
        return f"Blob({self.e})"


class Fill(Seg):
    """n copies of one byte value (padding)"""
    sliceable = True

    def __init__(self, n, value):
        self.n = _simp(n)
        self.value = value

    def width(self):
        c = _conc(self.n)
        return c if c is not None else self.n

    def to_z3(self):
        c = _conc(self.n)
        if c is not None:
            from .smt import bytes_lit
            return bytes_lit(bytes([self.value]) * c)
        raise Unsupported("symbolic-width padding has no closed sequence form")

    def sub(self, I, a, b):
        return Fill(_zi(b) - _zi(a), self.value)

    def byte(self, I, i):
        return self.value

    def __repr__(self):
        return f"Fill({self.n} x {self.value:#x})"


class LB:
    """Layout-typed bytes value."""

    def __init__(self, segs=()):
        self.segs = []
        for s in segs:
            self._push(s)

    # ---- construction
    def _push(self, s):
        w = s.width()
        if isinstance(w, int) and w == 0:
            return
        if self.segs:
            last = self.segs[-1]
            if isinstance(last, Raw) and isinstance(s, Raw):
                self.segs[-1] = Raw(last.data + s.data)
                return
            if isinstance(last, Slice) and isinstance(s, Slice) and last.base.eq(s.base) \
                    and _simp(last.b - s.a).eq(z3.IntVal(0)):
                self.segs[-1] = Slice(last.base, last.a, s.b, last.pred)
                return
        self.segs.append(s)

    @staticmethod
    def of(I, v):
        """coerce bytes-like value to LB"""
        if isinstance(v, LB):
            return v
        if isinstance(v, ByteArr):
            return LB.of(I, v.v)
        if isinstance(v, (bytes, bytearray)):
            return LB([Raw(bytes(v))])
        if isinstance(v, SV) and v.k == "bytes":
            return LB([Blob(v.e)])
        raise Unsupported(f"not bytes-like: {type(v).__name__}")

    def concat(self, I, other):
        o = LB.of(I, other)
        out = LB(self.segs)
        for s in o.segs:
            # merge adjacent slices when z3 proves adjacency under the path condition
            if out.segs and isinstance(out.segs[-1], Slice) and isinstance(s, Slice) and out.segs[-1].base.eq(s.base) \
                    and I.valid(out.segs[-1].b == s.a):
                last = out.segs[-1]
                out.segs[-1] = Slice(last.base, last.a, s.b, last.pred)
            else:
                out._push(s)
        return out

    # ---- queries
    def total(self):
        t = 0
        for s in self.segs:
            t = t + s.width()
        return _num(t)

    def bounds(self):
        out = [0]
        t = 0
        for s in self.segs:
            t = t + s.width()
            out.append(_num(t))
        return out

    def to_z3(self):
        parts = [s.to_z3() for s in self.segs]
        if not parts:
            return z3.Empty(BYTES)
        return parts[0] if len(parts) == 1 else z3.Concat(parts)

    def sym_kind(self):
        return "bytes"

    def sym_len(self, I):
        t = self.total()
        return t if isinstance(t, int) else SV(t, "int")

    def truth(self, I):
        t = self.total()
        if isinstance(t, int):
            return t > 0
        return t > 0

    def sym_bytes(self, I):
        return self

    def sym_binop(self, I, op, other, reflected):
        if isinstance(op, ast.Add):
            try:
                o = LB.of(I, other)
            except Unsupported:
                return NotImplemented
            return o.concat(I, self) if reflected else self.concat(I, o)
        return NotImplemented

    def sym_eq(self, I, other):
        if other is None or isinstance(other, (int, str)):
            return False
        try:
            o = LB.of(I, other)
        except Unsupported:
            return False
        a, b = self.total(), o.total()
        if isinstance(a, int) and isinstance(b, int) and a != b:
            return False
        if len(self.segs) == len(o.segs) == 1 and isinstance(self.segs[0], Raw) and isinstance(o.segs[0], Raw):
            return self.segs[0].data == o.segs[0].data
        if not self.segs and not o.segs:
            return True
        if isinstance(a, int) and isinstance(b, int) and a == b and a <= 4:
            # short values: compare byte by byte through the segment accessors (instantiates element predicates)
            parts = []
            for i in range(a):
                x, y = self.sym_index(I, i), o.sym_index(I, i)
                parts.append(_zi(x) == _zi(y))
            return z3.And(parts) if len(parts) > 1 else parts[0]
        if isinstance(a, int) and not isinstance(b, int) or isinstance(b, int) and not isinstance(a, int):
            # lengths may differ
            return z3.And(_zi(a) == _zi(b), self._seq_eq(I, o))
        return self._seq_eq(I, o)

    def _seq_eq(self, I, o):
        # segment-wise when both sides have the same shape
        if len(self.segs) == len(o.segs) and all(type(x) is type(y) for x, y in zip(self.segs, o.segs)):
            parts = []
            ok = True
            for x, y in zip(self.segs, o.segs):
                wx, wy = _zi(x.width()), _zi(y.width())
                if not (wx.eq(wy) or I.valid(wx == wy)):
                    ok = False          # boundaries do not line up: fall back to sequence equality
                    break
                if isinstance(x, UInt) and x.n == y.n:
                    parts.append(x.e == y.e)
                elif isinstance(x, Raw):
                    if len(x.data) != len(y.data):
                        return False
                    parts.append(z3.BoolVal(x.data == y.data))
                elif isinstance(x, Fill):
                    parts.append(z3.And(_zi(x.n) == _zi(y.n), z3.BoolVal(x.value == y.value)))
                elif isinstance(x, (Blob, Slice)):
                    parts.append(x.to_z3() == y.to_z3())
                else:
                    ok = False
                    break
            if ok:
                return z3.And(parts) if len(parts) > 1 else parts[0]
        return self.to_z3() == o.to_z3()

    # ---- element / slice
    def _locate(self, I, off, end_bias=False):
        """Find (segment index k, local offset) with bounds[k] <= off < bounds[k+1] (or == total ->
        (n, 0)).  Forks the path on undetermined comparisons."""
        bs = self.bounds()
        off_e = _zi(off)
        for k in range(len(self.segs)):
            hi = _zi(bs[k + 1])
            if I.valid(off_e < hi):
                return k, _simp(off_e - _zi(bs[k]))
            if I.valid(off_e >= hi):
                continue
            if I.branch(SV(off_e < hi, "bool"), "locate"):
                return k, _simp(off_e - _zi(bs[k]))
        return len(self.segs), 0

    def sym_index(self, I, idx):
        tot = _zi(self.total())
        i = _zi(idx)
        if not I.valid(z3.And(i >= -tot, i < tot)):
            if I.branch(SV(z3.Or(i < -tot, i >= tot), "bool"), "idx"):
                I.raise_("IndexError", "index out of range")
        if not I.valid(i >= 0):
            if I.branch(SV(i < 0, "bool"), "negidx"):
                i = i + tot
        k, loc = self._locate(I, i)
        if k >= len(self.segs):
            I.raise_("IndexError", "index out of range")
        return self.segs[k].byte(I, loc)

    def _clamp(self, I, x, tot, default):
        if x is None:
            return default
        e = _zi(x)
        if I.valid(z3.And(e >= 0, e <= tot)):
            return _simp(e)
        if not I.valid(e >= 0):
            if I.branch(SV(e < 0, "bool"), "slice-neg"):
                e = e + tot
                if not I.valid(e >= 0):
                    if I.branch(SV(e < 0, "bool"), "slice-neg2"):
                        return z3.IntVal(0)
                return _simp(e)
        if not I.valid(e <= tot):
            if I.branch(SV(e > tot, "bool"), "slice-over"):
                return tot
        return _simp(e)

    def sym_slice(self, I, lo, hi, step):
        if step is not None and step != 1:
            raise Unsupported("slice step on layout bytes")
        tot = _zi(self.total())
        a = self._clamp(I, lo, tot, z3.IntVal(0))
        b = self._clamp(I, hi, tot, tot)
        if not I.valid(a <= b):
            if I.branch(SV(a > b, "bool"), "slice-empty"):
                return LB()
        if I.valid(a == b):
            return LB()
        ka, la = self._locate(I, a)
        # end: find segment containing b-1 ... use boundary search with b
        bs = self.bounds()
        out = LB()
        k = ka
        cur_lo = la
        while k < len(self.segs):
            seg = self.segs[k]
            seg_hi = _zi(bs[k + 1])
            w = _zi(seg.width())
            if I.valid(b >= seg_hi):
                ends_here = I.valid(b == seg_hi)
                piece_hi = w
            elif I.valid(b < seg_hi):
                ends_here = True
                piece_hi = _simp(b - _zi(bs[k]))
            elif I.branch(SV(b >= seg_hi, "bool"), "slice-end"):
                ends_here = I.valid(b == seg_hi)
                piece_hi = w
            else:
                ends_here = True
                piece_hi = _simp(b - _zi(bs[k]))
            whole = I.valid(_zi(cur_lo) == 0) and I.valid(_zi(piece_hi) == w)
            if whole:
                out = out.concat(I, LB([seg]))
            else:
                if not seg.sliceable:
                    if isinstance(seg, UInt):
                        lo_c, hi_c = I.concretize(_zi(cur_lo)), I.concretize(_zi(piece_hi))
                        if lo_c is None or hi_c is None:
                            raise Unsupported("symbolic cut inside a packed integer")
                        for j in range(lo_c, hi_c):
                            out = out.concat(I, LB([UInt(1, seg.byte(I, j).e)]))
                    else:
                        raise Unsupported(f"cut inside non-sliceable segment {seg!r}")
                else:
                    out = out.concat(I, LB([seg.sub(I, cur_lo, piece_hi)]))
            if ends_here:
                break
            k += 1
            cur_lo = 0
        return out

    def sym_unpack(self, I, st):
        tot = self.total()
        tot_e = _zi(tot)
        if not I.valid(tot_e == st.size):
            if I.branch(SV(tot_e != st.size, "bool"), "struct.len"):
                I.raise_("struct.error", f"unpack requires a buffer of {st.size} bytes")
        out = []
        off = 0
        for ch, w in st.fields:
            if ch == "x":
                off += w
                continue
            if ch == "s":
                out.append(self.sym_slice(I, off, off + w, None))
                off += w
                continue
            # fast path: the field is exactly one UInt segment
            bs = self.bounds()
            hit = None
            for k, seg in enumerate(self.segs):
                if isinstance(seg, UInt) and seg.n == w and st.order == ">" and ch.isupper() \
                        and _conc(_zi(bs[k])) == off:
                    hit = seg
            if hit is not None:
                out.append(SV(hit.e, "int"))
                off += w
                continue
            vals = [self.sym_index(I, off + i) for i in range(w)]
            if st.order == "<":
                vals.reverse()
            val = _zi(vals[0])
            for b_ in vals[1:]:
                val = val * 256 + _zi(b_)
            if not ch.isupper():
                val = z3.If(val >= 2 ** (8 * w - 1), val - 2 ** (8 * w), val)
            out.append(SV(_simp(val), "int") if _conc(val) is None else _conc(val))
            off += w
        return tuple(out)

    def is_slice_of(self, I, base, a, b):
        """z3 Bool / bool: this value is exactly base[a:b]"""
        a, b = _zi(a), _zi(b)
        if len(self.segs) == 0:
            return a == b
        if len(self.segs) == 1 and isinstance(self.segs[0], Slice) and self.segs[0].base.eq(base):
            s = self.segs[0]
            return z3.And(s.a == a, s.b == b)
        return self.to_z3() == z3.SubSeq(base, a, b - a)

    def __repr__(self):
        return "LB[" + ", ".join(map(repr, self.segs)) + "]"

"""Run a replay harness (under /venv/bin/python, which imports pynetdicom from /repo)."""
import json
import os
import subprocess
import tempfile

VERIF = os.path.dirname(os.path.dirname(os.path.abspath(__file__)))
PY = os.environ.get("VERIF_REPLAY_PYTHON", "/venv/bin/python")


def run_replay(prop, rec, timeout=120):
    script = os.path.join(VERIF, "replay", f"{prop}.py")
    if not os.path.exists(script):
        return {"reproduced": None, "note": "no replay harness"}
    with tempfile.NamedTemporaryFile("w", suffix=".json", delete=False) as fh:
        json.dump(rec, fh, default=str)
        path = fh.name
    try:
        env = dict(os.environ)
        env["PYTHONPATH"] = os.environ.get("VERIF_REPO", "/repo")
        p = subprocess.run([PY, script, path], capture_output=True, text=True, timeout=timeout, env=env,
                           cwd=os.environ.get("VERIF_REPO", "/repo"))
        out = p.stdout.strip().splitlines()
        for line in reversed(out):
            if line.startswith("{"):
                try:
                    return json.loads(line)
                except Exception:
                    pass
        return {"reproduced": None, "note": "replay produced no result", "stdout": p.stdout[-2000:],
                "stderr": p.stderr[-2000:]}
    except subprocess.TimeoutExpired:
        return {"reproduced": None, "note": "replay timed out"}
    finally:
        os.unlink(path)

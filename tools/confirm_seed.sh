#!/bin/bash
# tools/confirm_seed.sh <seed-name> <src-dir with patch.diff demo.py meta.json> <PROP[,PROP..]> <test files...>
# Confirms a seeded change in a scratch worktree of /repo (removed afterwards) and records it under /verif/seeded/<seed-name>/.
set -u
NAME=$1; SRC=$2; PROPS=$3; shift 3
WT=$(mktemp -d /tmp/seedwt.XXXXXX); rmdir "$WT"
git -C /repo worktree add -q "$WT" HEAD || exit 3
OUT=/verif/seeded/$NAME; mkdir -p "$OUT"
cp "$SRC/patch.diff" "$SRC/demo.py" "$OUT/"
cd "$WT"
# demo and tests run in a private network namespace (fixed test ports collide with anything else running on the machine)
NS() { unshare -n sh -c "ip link set lo up; $1"; }
D0=$(NS "PYTHONPATH=$WT timeout 600 /venv/bin/python $OUT/demo.py" >/dev/null 2>&1; echo $?)
if ! git apply "$OUT/patch.diff"; then echo "PATCH DOES NOT APPLY"; git -C /repo worktree remove --force "$WT"; exit 4; fi
D1=$(NS "PYTHONPATH=$WT timeout 600 /venv/bin/python $OUT/demo.py" >/dev/null 2>&1; echo $?)
T=""
if [ $# -gt 0 ]; then
  T=$(NS "PYTHONPATH=$WT timeout 3000 /venv/bin/python -m pytest -q -p no:cacheprovider $* 2>&1" | tail -1)
fi
cd /verif
RES=""
for P in ${PROPS//,/ }; do
  R=$(VERIF_REPO=$WT ./check $P 2>&1 | grep -E "^VIOLATION|^UNDECIDED|^CHECKER" | head -3 | tr '\n' ';')
  RC=$(VERIF_REPO=$WT ./check $P >/dev/null 2>&1; echo $?)
  RES="$RES $P:exit=$RC [$R]"
done
git -C /repo worktree remove --force "$WT"
echo "demo original exit=$D0 ; demo patched exit=$D1 ; tests: $T ; checks:$RES"
python3 - "$OUT" "$SRC" "$D0" "$D1" "$T" "$RES" <<'PY'
import json,sys
out,src,d0,d1,t,res=sys.argv[1:7]
m=json.load(open(src+'/meta.json'))
m['confirmed']={'demo_exit_on_original':int(d0),'demo_exit_on_patched':int(d1),'tests_with_patch':t,'checks_on_patched_tree':res.strip(),
  'how':'scratch git worktree of /repo HEAD outside /repo and /verif, patch applied with git apply, demo run with PYTHONPATH=<worktree>, checks run with VERIF_REPO=<worktree>; worktree removed afterwards'}
json.dump(m,open(out+'/meta.json','w'),indent=1)
PY

#!/usr/bin/env python3
"""Generate /verif/MANIFEST.json from the metadata of the contract modules (run under python3-vt)."""
import importlib
import json
import os
import sys

VERIF = os.path.dirname(os.path.dirname(os.path.abspath(__file__)))
sys.path.insert(0, VERIF)

from pyvc.driver import claimed_level, open_findings  # noqa: E402

ALL = [f"C{i:02d}" for i in range(1, 31)]

NOT_APPLICABLE = {
    "C06": "quantifies over all interleavings of 4-6 threads in two processes and asserts agreement between two "
           "parties and termination within timeouts; no function contract (pre/postcondition, invariant) can express "
           "or decide that; a faithful treatment needs an interleaving semantics (model checking / concurrent program "
           "logic), which is a different technique family (DESIGN.md section 3, C06)",
}
PENDING = "contracts for this property are not built yet in this round (planned in DESIGN.md section 9); not claimed"


def main():
    checks = []
    na = []
    engines_props = []
    for pid in ALL:
        path = os.path.join(VERIF, "contracts", f"{pid}.py")
        if pid in NOT_APPLICABLE:
            na.append({"property_id": pid, "reason": NOT_APPLICABLE[pid]})
            continue
        if not os.path.exists(path):
            na.append({"property_id": pid, "reason": PENDING})
            continue
        mod = importlib.import_module(f"contracts.{pid}")
        if getattr(mod, "CLAIMED", True) is False:
            na.append({"property_id": pid, "reason": getattr(mod, "NA_REASON", PENDING)})
            continue
        engines_props.append(pid)
        level = claimed_level(mod, pid)
        text = getattr(mod, "LEVEL_TEXT", "")
        note = getattr(mod, "LEVEL_NOTE", "")
        opened = open_findings(pid)
        if opened and getattr(mod, "LEVEL", "proof") == "proof":
            text = (f"NOT a completed proof on the current tree: {len(opened)} obligation(s) are refuted by the real code and "
                    "recorded as open known findings (printed as KNOWN-FINDING, exit 0); every other obligation is discharged "
                    "for all inputs, and any other failing obligation is a VIOLATION. Method: " + text)
            note = "open known findings: " + "; ".join(f["obligation"] for f in opened) + ". " + note
        checks.append({
            "property_id": pid,
            "quick_cmd": f"./check {pid} --tier quick",
            "thorough_cmd": f"./check {pid} --tier thorough",
            "evidence_file": f"/verif/evidence/{pid}.json",
            "replay_cmd_template": f"./check {pid} --replay {{path}}",
            "engine": "pyvc",
            "level_claimed": {
                "category": level,
                "text": text,
                "design_ref": getattr(mod, "DESIGN_REF", f"DESIGN.md section 3 ({pid})"),
            },
            "level_note": note,
            "technique": getattr(mod, "TECHNIQUE", "contract-based deductive verification: VCs generated from the AST of the real functions, discharged by z3/cvc5"),
        })
    manifest = {
        "version": 1,
        "setup_cmd": "python3-vt -c 'import z3, ast; print(z3.get_version_string())' && test -x /venv/bin/python",
        "hooks": {
            "guard": "PYNETDICOM_VERIF",
            "enable": "no hooks are needed: contracts are sidecar files under /verif/contracts, the source under /repo is parsed (never imported) by the verifier and replays use stubs; the guard name is declared but unused",
            "baseline_off_cmd": "cd /repo && /venv/bin/python -m pytest -ra -q -p no:cacheprovider --timeout=900 --continue-on-collection-errors",
            "source_commits": [],
            "add_only": True,
        },
        "engines": [{
            "name": "pyvc",
            "path": "/verif/pyvc",
            "serves_properties": engines_props,
            "kind_free_text": "AST -> verification-condition generator (forward symbolic execution of the real function bodies re-read from /repo on every run, calls by callee contract, loops by invariant, effect traces) with z3 5.1 as first and cvc5/z3-CLI as second back end; finite domains enumerated exhaustively; counterexamples replayed on the real code under /venv/bin/python",
        }],
        "checks": checks,
        "not_applicable": na,
        "notes": "Exit codes of ./check: 0 held, 1 violation (VIOLATION line), 2 undecided, 3 checker error. See DESIGN.md.",
    }
    json.dump(manifest, open(os.path.join(VERIF, "MANIFEST.json"), "w"), indent=1)
    print(f"claimed={len(checks)} not_applicable={len(na)}")


if __name__ == "__main__":
    main()

#!/usr/bin/env python3
"""Validate every registered evidence file: EVIDENCE.schema.json, level == MANIFEST level_claimed.category, and for a
proof-level file discharged == obligations.  Run under python3-vt (jsonschema).  Exit 0 iff all are valid."""
import json
import os
import sys

import jsonschema

VERIF = os.path.dirname(os.path.dirname(os.path.abspath(__file__)))
schema = json.load(open("/root/.vp/EVIDENCE.schema.json"))
man = json.load(open(os.path.join(VERIF, "MANIFEST.json")))
bad = 0
for c in man["checks"]:
    pid = c["property_id"]
    path = c["evidence_file"]
    try:
        e = json.load(open(path))
        jsonschema.validate(e, schema)
        cov = e["coverage"]
        probs = []
        if e["property_id"] != pid:
            probs.append("property_id mismatch")
        if e["level"] != c["level_claimed"]["category"]:
            probs.append(f"level {e['level']} != claimed {c['level_claimed']['category']}")
        if e["level"] == "proof" and cov["discharged"] != cov["obligations"]:
            probs.append(f"discharged {cov['discharged']} != obligations {cov['obligations']}")
        if e.get("violations"):
            probs.append(f"violations={e['violations']}")
        if e["level"] == "other" and not cov.get("explanation", "").strip():
            probs.append("no explanation")
    except Exception as ex:  # noqa: BLE001
        probs = [f"{type(ex).__name__}: {str(ex)[:200]}"]
    print(pid, "ok" if not probs else "INVALID: " + "; ".join(probs))
    bad += bool(probs)
sys.exit(1 if bad else 0)

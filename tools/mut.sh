#!/bin/sh
# tools/mut.sh <PROP> <file-relative-to-repo> <sed-expr>  : run a check against a scratch copy with one edit
set -e
D=$(mktemp -d /tmp/mut.XXXXXX)
cp -r /repo/pynetdicom "$D/"
sed -i "$3" "$D/$2"
if diff -q "/repo/$2" "$D/$2" >/dev/null; then echo "MUTATION DID NOT APPLY"; rm -rf "$D"; exit 9; fi
cd /verif
VERIF_REPO="$D" ./check "$1" 2>&1 | grep -E "^VIOLATION|^UNDECIDED|^CHECKER|obligations=|failed obligation" | cut -c1-260 | head -${4:-6}
rm -rf "$D"

#!/bin/bash
# tools/check_seeded.sh [name-substring] : re-run every confirmed seeded change under /verif/seeded against its check.
# Each runs in a scratch copy of /repo's working tree outside /repo and /verif (removed afterwards); evidence and replay
# files of these runs go to $VERIF_OUT (never /verif/evidence).  Exit 0 iff every seeded change is reported (exit 1 +
# VIOLATION) by the check of the property named in its directory name.
set -u
cd /verif
export VERIF_OUT=$(mktemp -d /tmp/seedout.XXXXXX)
bad=0
for d in seeded/*${1:-}*; do
  name=$(basename "$d"); prop=${name%%-*}
  W=$(mktemp -d /tmp/seedwt.XXXXXX)
  cp -r /repo/pynetdicom "$W/"
  if ! (cd "$W" && patch -s -p1 < "/verif/$d/patch.diff"); then echo "$name: PATCH DOES NOT APPLY"; bad=1; rm -rf "$W"; continue; fi
  out=$(VERIF_REPO=$W ./check "$prop" 2>&1); rc=$?
  rm -rf "$W"
  v=$(echo "$out" | grep -c "^VIOLATION property=$prop ")
  echo "$name: exit=$rc violations=$v"
  python3 - "/verif/$d/meta.json" "$prop" "$rc" "$(echo "$out" | grep "^VIOLATION property=$prop " | sed "s#replay=.*/replays/#replay=<out>/replays/#" | head -3 | tr '\n' ';')" <<'PY'
import json, sys
p, prop, rc, viol = sys.argv[1:5]
m = json.load(open(p))
m.setdefault("confirmed", {})["latest_check_run"] = f"{prop}:exit={rc} [{viol}]"
json.dump(m, open(p, "w"), indent=1)
PY
  if [ "$rc" != 1 ] || [ "$v" = 0 ]; then bad=1; echo "$out" | tail -5; fi
done
rm -rf "$VERIF_OUT"
exit $bad

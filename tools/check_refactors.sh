#!/bin/bash
# tools/check_refactors.sh [substr] : every behaviour-preserving change under /verif/refactors must leave the related checks QUIET
# (exit 0: held; exit 2 "undecided" is recorded - the contract could not be applied to the restructured code - but is not an alarm;
# exit 1 / a VIOLATION line on such a change is a FALSE ALARM of the machinery).
cd /verif
LIST=$(mktemp /tmp/rf_list.XXXXXX)
python3 - "$1" <<'PY' > "$LIST"
import json,sys,glob
sub=sys.argv[1] if len(sys.argv)>1 else ""
for g in ("A","B","C","D","E","F","G","H","I","J"):
    if not __import__("os").path.exists(f"/verif/refactors/{g}.json"): continue
    for i,r in enumerate(json.load(open(f"/verif/refactors/{g}.json")),1):
        name=f"{g}_{i}"
        if sub and sub not in name: continue
        props=sorted(set(p for p in r["properties"] if p!="C06"))
        print(name, ",".join(props))
PY
FAIL=0
while read NAME PROPS; do
  D=$(mktemp -d /tmp/rfchk.XXXXXX); cp -r /repo/pynetdicom "$D/"
  if ! (cd "$D" && patch -p1 -s < /verif/refactors/$NAME.diff); then echo "$NAME: PATCH DOES NOT APPLY"; rm -rf "$D"; continue; fi
  RES=""
  for P in ${PROPS//,/ }; do
    OUT=$(VERIF_REPO=$D ./check $P 2>&1); RC=$?
    RES="$RES $P:exit=$RC"
    if [ $RC -eq 1 ] || echo "$OUT" | grep -q "^VIOLATION"; then FAIL=1; echo "$OUT" | grep -E "^VIOLATION|failed obligation" | head -4 | cut -c1-300; fi
    if [ $RC -ge 2 ]; then echo "$OUT" | grep -E "^UNDECIDED|^CHECKER" | head -3 | cut -c1-300; fi
  done
  echo "$NAME:$RES"
  rm -rf "$D"
done < "$LIST"
rm -f "$LIST"
exit $FAIL

#!/bin/bash
# tools/check_refactors.sh [substr] : every behaviour-preserving change under /verif/refactors must leave the related checks QUIET
# (exit 0: held; exit 2 "undecided" is recorded - the contract could not be applied to the restructured code - but is not an alarm;
# exit 1 / a VIOLATION line on such a change is a FALSE ALARM of the machinery).
cd /verif
LIST=$(mktemp /tmp/rf_list.XXXXXX)
python3 - "$1" <<'PY' > "$LIST"
import json,sys,glob
sub=sys.argv[1] if len(sys.argv)>1 else ""
for g in ("A","B","C","D","E","F","G","H","I","J","K","L","M","N","O","P","Q"):
    if not __import__("os").path.exists(f"/verif/refactors/{g}.json"): continue
    for i,r in enumerate(json.load(open(f"/verif/refactors/{g}.json")),1):
        name=f"{g}_{i}"
        if sub and sub not in name: continue
        props=sorted(set(p for p in r["properties"] if p!="C06"))
        if not props:
            # no properties named by the author: every check that has a function of a touched file under contract
            FILES={"acse.py":"C07 C08 C10 C11 C12 C13 C14 C24 C26 C27","ae.py":"C11 C12 C14","pdu.py":"C01 C02 C10 C11 C13","pdu_items.py":"C01 C02 C10 C11 C13",
                   "dul.py":"C02 C03 C05 C08 C09 C27","transport.py":"C03 C05 C08 C27","association.py":"C07 C08 C09 C18 C19 C20 C23 C24 C27",
                   "utils.py":"C02 C12","_validators.py":"C12","dimse.py":"C02 C08 C15 C17 C23","dimse_messages.py":"C15 C16 C17 C19 C25",
                   "service_class.py":"C07 C20 C21 C22 C23 C26 C28","handlers.py":"C30","common.py":"C30","db.py":"C29","dsutils.py":"C21 C25",
                   "timer.py":"C04 C05 C09","events.py":"C13 C26","fsm.py":"C04 C05 C07 C27","presentation.py":"C10 C11 C12","status.py":"C28","sop_class.py":"C10 C19"}
            touched=[l.split("/")[-1].strip() for l in open(f"/verif/refactors/{name}.diff") if l.startswith("+++ ")]
            props=sorted(set(x for t in touched for x in FILES.get(t,"").split()))
        print(name, ",".join(props))
PY
FAIL=0
while read NAME PROPS; do
  D=$(mktemp -d /tmp/rfchk.XXXXXX); cp -r /repo/pynetdicom "$D/"
  if ! (cd "$D" && patch -p1 -s < /verif/refactors/$NAME.diff); then echo "$NAME: PATCH DOES NOT APPLY"; rm -rf "$D"; continue; fi
  RES=""
  for P in ${PROPS//,/ }; do
    OUT=$(VERIF_REPO=$D ./check $P 2>&1); RC=$?
    RES="$RES $P:exit=$RC"
    if [ $RC -eq 1 ] || echo "$OUT" | grep -q "^VIOLATION"; then FAIL=1; echo "$OUT" | grep -E "^VIOLATION|failed obligation" | head -4 | cut -c1-300; fi
    if [ $RC -ge 2 ]; then echo "$OUT" | grep -E "^UNDECIDED|^CHECKER" | head -3 | cut -c1-300; fi
  done
  echo "$NAME:$RES"
  rm -rf "$D"
done < "$LIST"
rm -f "$LIST"
exit $FAIL
